#!/usr/bin/env python3
"""Rewrites the measured-cost table in DESIGN.md (between the COSTS markers) from the evidence files of the last run of each tier."""
import json, os, re
rows = []
tot = {'quick': [0, 0.0], 'thorough': [0, 0.0]}
for i in range(1, 20):
    pid = 'C%02d' % i
    cells = [pid]
    for tier in ('quick', 'thorough'):
        p = '/verif/evidence/%s.%s.json' % (pid, tier)
        if not os.path.exists(p):
            cells += ['-', '-', '-']
            continue
        d = json.load(open(p)); c = d['coverage']
        ex = c['traces_validated_against_impl']
        cells += [str(c['scenarios']), '%d' % ex, '%d..%d%s' % (c['deviation_bound_completed_min'], c['deviation_bound_completed_max'], '' if c['exhaustive'] else ' (capped)'), '%.0f s' % d['wall_s']]
        tot[tier][0] += ex; tot[tier][1] += d['wall_s']
    rows.append(cells)
hdr = '| property | quick: scenarios | executions | bound completed | wall | thorough: scenarios | executions | bound completed | wall |\n|---|---|---|---|---|---|---|---|---|'
body = '\n'.join('| ' + ' | '.join(r) + ' |' for r in rows)
summ = 'Totals: quick %d executions in %.1f min; thorough %d executions in %.1f min (sequential runs, 16 cores; C01 additionally runs its family on the build without `work_steal`, `evidence/C01.work_steal_off.json`).' % (tot['quick'][0], tot['quick'][1] / 60, tot['thorough'][0], tot['thorough'][1] / 60)
block = '<!-- COSTS-BEGIN -->\n' + hdr + '\n' + body + '\n\n' + summ + '\n<!-- COSTS-END -->'
d = open('/verif/DESIGN.md').read()
if '<!-- COSTS-BEGIN -->' in d:
    d = re.sub(r'<!-- COSTS-BEGIN -->.*?<!-- COSTS-END -->', lambda m: block, d, flags=re.S)
    open('/verif/DESIGN.md', 'w').write(d)
print(summ)
