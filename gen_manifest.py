#!/usr/bin/env python3
"""Generates MANIFEST.json from the table below (kept in one place so that it stays consistent)."""
import json, subprocess
props = {json.loads(l)['id']: json.loads(l) for l in open('/verif/properties.jsonl')}
hook_commits = subprocess.check_output(['git','-C','/repo','log','--format=%h %s']).decode().strip().split('\n')
hook_commits = [l.split()[0] for l in hook_commits if 'verif hooks' in l][::-1]
NOTES = {
 'C01': ("runtime layer: 24 spawn/join programs (go!, Builder with custom stack and id, spawn_local; ret / yield / sleep / park / panic / cancel / nested / scoped), workers 1-2, run queues positioned at their 32/64-slot block boundaries, 10 ms polling variants; the whole family runs twice, on the default runtime (work_steal) and on a second build of the runtime without work_steal; second-generation coroutines on a pooled stack whose first occupant was cancelled / panicked / timed out, blocking on Mutex and Semphore", "§6 C01"),
 'C02': ("ThreadPark through Blocker (fine), coroutine::park / park_timeout sequences with unpark-after-return handshake, fresh Blocker parks with timeout / cancel / ignore_cancel, thread and coroutine unparkers, T2 clock deviations; fresh-Blocker timeouts that are not a whole number of milliseconds (never reported early)", "§6 C02"),
 'C03': ("component layer, fine granularity with post-store points: mpsc and spsc block queues at block-boundary offsets, 2 producers x consumer programs, brute-force FIFO linearizability + exactly-once + drop counters; exhaustive sequential sweeps vs VecDeque; lagging-consumer members (queue prefilled with 1-3 blocks, bulk_pop ending at a block boundary while the producer recycles blocks); len / is_empty right after the pop of the slot that closes a block", "§6 C03"),
 'C04': ("component layer, fine: spmc Local/Steal (owner push/pop vs 1-2 stealers' steal_into) and raw Queue pop/bulk_pop at block-boundary offsets; exactly-once, owner/batch order, newest-of-batch, drop counters; ABA member: stealer stalled across two blocks of owner push/pop under the recycling allocator", "§6 C04"),
 'C05': ("Mutex with thread / coroutine mixes, try_lock, a cancelled waiter; occupancy counter and split read-modify-write inside the critical section, lock free and unpoisoned at the end; members with the lock held when the window opens so that the hand-off races with the cancellation; store-buffer members (x86-TSO on the shim atomics of sync/blocking.rs): the unlock meets the cancelled waiter between its release store and its second look at unparked", "§6 C05"),
 'C06': ("mpsc / spsc / mpmc channels with thread and coroutine endpoints: recv / try_recv / recv_timeout programs, multiset + per-sender order + drop counters, every receiver finally sees Disconnected; members whose Senders stay alive until everything is received (only the send itself can wake the receiver); sends that meet the expiry of a recv_timeout (also with the Sender kept alive); channel queues crossing their block boundary", "§6 C06"),
 'C07': ("last Sender dropped against receivers before / in / after registering (0-1 values queued, 1-2 mpmc receivers, cloned senders), Receiver dropped against senders; no hang, queued values first, values dropped once", "§6 C07"),
 'C08': ("timer-list component at fine granularity (TimerThread driven by harness threads: add / delete / expiry with equal and different intervals, adds coinciding with an expiry), sweep of every timed API x coroutine/thread context x duration alphabet {0, 1 ns, 999999 ns, 1 ms, 1 ms+1 ns, 1.5 ms, 2 ms} with nothing arriving, event-vs-timeout races with T2 clock deviations; never early, always returns, lateness <= 1 ms without clock deviations", "§6 C08"),
 'C09': ("a target coroutine owning tracked values blocks in park / sleep / yield / Mutex / Semphore / Condvar / RwLock read+write / SyncFlag / mpsc / mpmc / join and then in a second cancellable call; the search places cancel(); a partner issues the awaited events, a bystander shares the primitive; cancel-only members where the cancel is the only wake-up; quiescent probes of the primitive's state; timed variants (park_timeout, Semphore / Condvar wait_timeout, mpsc recv_timeout), spsc receive, a Barrier party; destructors on the cancelled stack that block on a Mutex / Semphore / SyncFlag during the unwind", "§6 C09"),
 'C10': ("Semphore wait / wait_timeout / try_wait / post and SyncFlag wait / fire with threads and coroutines, cancelled waiters; prefix bound on successful waits, conservation at quiescence, latch clauses; store-buffer members (post meets a waiter that gives up); fire inside the window between is_fired and the queue push", "§6 C10"),
 'C11': ("Condvar wait / wait_while / wait_timeout vs notify_one / notify_all, forwarding of a notification by a timing-out or cancelled waiter, the notifier holding the mutex while the waiter's wait ends, cancel during the re-lock after a notification, Barrier generations and leaders, WaitGroup; a Barrier party cancelled as the leader arrives (two generations); cancel and unlock back to back while the waiter sits in the re-lock; store-buffer member for the forwarding handshake", "§6 C11"),
 'C12': ("RwLock: exhaustive sequential operation sequences (read / write / try_* / guard drops / poison) against a reader-writer model plus concurrent thread / coroutine mixes in clean and poisoned state, cancelled waiters, quiescent probe of the reader/writer counts; store-buffer members for the writer / first-reader hand-off", "§6 C12"),
 'C13': ("a coroutine panics (typed payload) before / after a yield, holding a Mutex or RwLock write guard, as scoped child or select arm; cancel unwind with guards; bystanders, coroutine and thread lockers plus a try-lock prober released when the panic starts, later spawns on the recycled stack, poison flag and release; fire-and-forget (detached) coroutines that panic followed by later spawns that return / are cancelled / panic / select!; a cqueue with a removed arm and a panicking arm", "§6 C13"),
 'C14': ("coroutine::scope / join! / cqueue::scope with thread and coroutine owners, owner panics, owner cancelled while waiting, the last-spawned child panics while its siblings run, join! inside a losing select! arm; children watch an owner-frame liveness flag; nested scopes (a scoped child opens its own scope)", "§6 C14"),
 'C15': ("coroutine_local! privacy across yields and migration, init-once and drop-once, thread fallback; fresh coroutine on the provably reused stack after a returned / panicked / cancelled (also with a destructor that yields during the unwind) / timed-out occupant; previous occupant detached; the fresh coroutine itself ends by cancel or by its own panic (join must deliver exactly its own result); a timed park whose expiry meets an unpark", "§6 C15"),
 'C16': ("cqueue arms with ready / yield / sleep / channel-receive / panicking top halves, one-shot and two-event arms, poll(None) and poll(1 ms), Selector::remove, thread and coroutine pollers, select! against channel and sleep; per-arm top/bottom counters, Finished / Timeout clauses, nothing runs after the scope; arms whose top half runs without cancellation points (bottom half only with a consumed event: bottom_without_event), a removal that meets the arm's send, a removed arm plus a panicking arm, cqueue lifetime labels (use after the scope was left)", "§6 C16"),
 'C17': ("real sockets, real kernel: UnixStream pairs (coroutine and thread endpoints through the proxy coroutine), payload / chunk / buffer alphabets, back-pressure over minimised socket buffers, two connections, loopback TCP accept / connect / EOF, Unix and UDP datagram boundaries; thread readers with spurious std::thread::park wake-ups as a deviation; byte-exact comparison, EOF position, no hang; use-after-free detector on every hooked access; descriptor reuse: a socket dropped / a TCP connect refused while another thread creates a connection (the kernel hands out the closed number at once); writer and reader sockets on swapped selectors, thread writers under back-pressure; two handles on one stream (try_clone)", "§6 C17"),
 'C18': ("socket read timeouts {500 us, 1 ms, 1.5 ms} with the peer writing never / before / after the deadline, two operations on one socket (stale timer; the read starting in the instant the data arrives so that subscribe takes its fast path), cancel of a coroutine blocked in read / accept / recv_from with a bystander connection; exact timeout clauses, fd closed after cancel; timed reads on TcpStream (own read path) with a std peer", "§6 C18"),
 'C19': ("component layer, fine: mpsc_list_v1 push vs pop / pop_if / peek / remove (head, middle, last, consumed entry), queue drop with entries left, FIFO-with-removal linearizability incl. the is_head report; exhaustive sequential sweep; mpsc_list", "§6 C19"),
}
checks = []
for pid in sorted(NOTES):
    text, ref = NOTES[pid]
    checks.append({
        "property_id": pid,
        "quick_cmd": f"./check {pid} --tier quick",
        "thorough_cmd": f"./check {pid} --tier thorough",
        "evidence_file": f"/verif/evidence/{pid}.json",
        "replay_cmd_template": f"./check {pid} --replay {{path}}",
        "engine": "detsched",
        "technique": "stateless model checking of the real code: controlled scheduler over real threads, exhaustive deviation-bounded schedule enumeration (CHESS style), fork per execution",
        "level_claimed": {
            "category": "model_checking",
            "text": "Every schedule of each listed closed scenario with at most d deviations from the default schedule (d per scenario in the evidence, quick: >=1-2 plus deepening while a level fits the budget, thorough: >=2-3) is executed on the real implementation and checked by the oracle; the search is exhaustive within that bound, nothing is claimed beyond it. Scenarios: " + text,
            "design_ref": ref,
        },
        "level_note": "Trusted/assumed: sequentially consistent interleavings only (plus, in the store-buffer members of C05 / C10 / C11 / C12, one store-to-load reordering per thread for stores issued from sync/blocking.rs); generator context switch, crossbeam SegQueue/AtomicCell, std Arc/Once and the Linux kernel are uninstrumented (kernel determinism is checked by replay fingerprints); the cfg(may_verif) shims are behaviour preserving (the repo suite passes with them compiled in); bounded participants/operations per scenario.",
    })
na = []
for pid in sorted(props):
    if pid not in NOTES:
        na.append({"property_id": pid, "reason": "check under construction in this session (model checking applies, see DESIGN.md §6); will be registered when its scenarios exist"})
m = {
 "version": 1,
 "setup_cmd": "cd /verif/harness && CARGO_NET_OFFLINE=true cargo build --offline && CARGO_TARGET_DIR=/verif/target-hooks-nosteal cargo build --offline --no-default-features",
 "hooks": {
   "guard": "may_verif",
   "enable": "RUSTFLAGS --cfg may_verif, set in /verif/harness/.cargo/config.toml; the harness crate path-depends on /repo so every check rebuilds from /repo's working tree",
   "baseline_off_cmd": "cd /repo && cargo nextest run --workspace --no-fail-fast --tool-config-file pb:/w/lib/nextest.toml --profile pb --test-threads 8 --offline || cargo test --workspace --no-fail-fast --offline",
   "source_commits": hook_commits,
   "add_only": True,
 },
 "engines": [{"name": "detsched", "path": "/verif/harness", "serves_properties": sorted(NOTES), "kind_free_text": "purpose-built controlled scheduler (baton passing over real OS threads through cfg(may_verif) hooks), virtual clock, virtual blocking, deterministic allocator, deviation-bounded breadth-first schedule enumeration with one forked child per execution, replay fingerprints"}],
 "checks": checks,
 "notes": "Exit codes of ./check: 0 property held on everything explored (KNOWN-FINDING lines possible), 1 VIOLATION line(s) printed, 2 machinery fault (build failure, nondeterminism, vacuous scenario). Known findings: /verif/known_findings.json.",
 "not_applicable": na,
}
json.dump(m, open('/verif/MANIFEST.json','w'), indent=1)
print(len(checks), 'checks;', len(na), 'not yet claimed')
