//! Verification hooks, compiled only with `--cfg may_verif`.
//!
//! A model-checking harness installs a [`Hooks`] implementation that owns every
//! scheduling decision.  Without an installed implementation every hook is a
//! null check and the code behaves exactly as the production build.
use std::panic::Location;

/// kind of shared memory operation that is about to be executed
#[derive(Clone, Copy, Debug, PartialEq, Eq)]
pub enum Op {
    Load,
    Store,
    Rmw,
    Fence,
    /// read of a queue payload cell (not a scheduling point)
    CellRead,
    /// write of a queue payload cell (not a scheduling point)
    CellWrite,
    /// read of a plain field that is shared by design
    PlainRead,
    /// write of a plain field that is shared by design
    PlainWrite,
}

pub trait Hooks: Sync {
    /// called *before* the described operation is executed
    fn point(&self, op: Op, addr: usize, loc: &'static Location<'static>);
    /// payload cell access
    fn cell(&self, op: Op, addr: usize, loc: &'static Location<'static>);
    /// called *after* a store or read-modify-write has been executed
    fn post(&self, addr: usize, loc: &'static Location<'static>);
    /// virtual clock in ns
    fn now_ns(&self) -> u64;
    /// called in the parent thread, returns a token for the new thread
    fn thread_create(&self) -> usize;
    /// called first thing in the new thread
    fn thread_start(&self, token: usize);
    /// called last thing in a thread, `panicked` when its closure unwound
    fn thread_exit(&self, panicked: bool);
    /// block (virtually) like `thread::park[_timeout]`
    fn pre_park(&self, timeout_ns: Option<u64>);
    /// make the park token of the thread available
    fn pre_unpark(&self, id: std::thread::ThreadId);
    /// virtual `thread::sleep`
    fn sleep(&self, ns: u64);
    /// block (virtually) until the epoll fd is readable or the timeout expires
    fn pre_epoll(&self, epfd: i32, timeout_ms: i64);
    fn lock(&self, addr: usize);
    fn unlock(&self, addr: usize);
    /// returns true when timed out
    fn cv_wait(&self, cv: usize, lock: usize, timeout_ns: Option<u64>) -> bool;
    fn cv_notify(&self, cv: usize, all: bool);
    /// the caller is in a busy wait loop
    fn spin(&self);
    /// the caller gives up its time slice
    fn yield_hint(&self);
    /// enter/leave a public queue operation
    fn bracket(&self, enter: bool);
    /// a named event used by oracles as causal witness
    fn label(&self, s: &'static str, arg: usize);
    /// a coroutine is about to be resumed (`enter`) / has switched off its stack
    fn co_resume(&self, enter: bool, co: usize);
    /// store-buffer model: the engine may take over a store that is not `SeqCst` (returns true)
    /// and make it visible to the other threads later, the shim then skips the real store
    fn defer_store(&self, _addr: usize, _size: u8, _bits: u64) -> bool {
        false
    }
    /// the value of the calling thread's youngest deferred store to `addr`, if there is one
    fn forward_load(&self, _addr: usize) -> Option<u64> {
        None
    }
    /// a `SeqCst` fence is about to execute
    fn fence(&self) {}
}

static mut HOOKS: Option<&'static dyn Hooks> = None;

/// install the hook implementation
///
/// # Safety
///
/// must be called while the process is single threaded
pub unsafe fn install(h: &'static dyn Hooks) {
    HOOKS = Some(h);
}

#[inline]
pub fn hooks() -> Option<&'static dyn Hooks> {
    unsafe { HOOKS }
}

#[inline]
pub fn active() -> bool {
    hooks().is_some()
}

#[inline]
#[track_caller]
pub fn point(op: Op, addr: usize) {
    if let Some(h) = hooks() {
        h.point(op, addr, Location::caller());
    }
}

#[inline]
#[track_caller]
pub fn post(addr: usize) {
    if let Some(h) = hooks() {
        h.post(addr, Location::caller());
    }
}

#[inline]
#[track_caller]
pub fn cell(op: Op, addr: usize) {
    if let Some(h) = hooks() {
        h.cell(op, addr, Location::caller());
    }
}

#[inline]
pub fn defer_store(addr: usize, size: usize, bits: u64) -> bool {
    match hooks() {
        Some(h) => h.defer_store(addr, size as u8, bits),
        None => false,
    }
}

#[inline]
pub fn forward_load(addr: usize) -> Option<u64> {
    hooks().and_then(|h| h.forward_load(addr))
}

#[inline]
pub fn spin_hint() {
    if let Some(h) = hooks() {
        h.spin();
    }
}

/// returns true when the engine handled the wait (the caller should `continue`)
#[inline]
pub fn spin_wait() -> bool {
    if let Some(h) = hooks() {
        h.spin();
        true
    } else {
        false
    }
}

#[inline]
pub fn yield_hint() {
    if let Some(h) = hooks() {
        h.yield_hint();
    }
}

#[inline]
pub fn label(s: &'static str, arg: usize) {
    if let Some(h) = hooks() {
        h.label(s, arg);
    }
}

#[inline]
pub fn co_resume(enter: bool, co: usize) {
    if let Some(h) = hooks() {
        h.co_resume(enter, co);
    }
}

#[inline]
pub fn now_ns() -> Option<u64> {
    hooks().map(|h| h.now_ns())
}

#[inline]
pub fn pre_park() {
    if let Some(h) = hooks() {
        h.pre_park(None);
    }
}

#[inline]
pub fn pre_unpark(t: &std::thread::Thread) {
    if let Some(h) = hooks() {
        h.pre_unpark(t.id());
    }
}

/// blocks virtually, returns true when the real wait that follows must not block
#[inline]
pub fn pre_epoll(epfd: i32, timeout_ms: i64) -> bool {
    if let Some(h) = hooks() {
        h.pre_epoll(epfd, timeout_ms);
        true
    } else {
        false
    }
}

/// marks one public queue operation, used for the coarse granularity mode
pub struct Bracket(bool);

impl Bracket {
    #[inline]
    #[allow(clippy::new_without_default)]
    pub fn new() -> Bracket {
        match hooks() {
            Some(h) => {
                h.bracket(true);
                Bracket(true)
            }
            None => Bracket(false),
        }
    }
}

impl Drop for Bracket {
    #[inline]
    fn drop(&mut self) {
        if self.0 {
            if let Some(h) = hooks() {
                h.bracket(false);
            }
        }
    }
}

/// atomics with the std API that report every operation before executing it
pub mod atomic {
    use super::{defer_store, forward_load, point, post, Op};
    pub use std::sync::atomic::Ordering;

    /// like `std::sync::atomic::fence`, a `SeqCst` fence is reported first
    #[inline]
    pub fn fence(o: Ordering) {
        if o == Ordering::SeqCst {
            if let Some(h) = super::hooks() {
                h.fence();
            }
        }
        std::sync::atomic::fence(o)
    }

    /// value <-> raw bits, for the store-buffer model
    pub trait Bits: Copy {
        fn to_bits(self) -> u64;
        fn from_bits(b: u64) -> Self;
    }
    macro_rules! int_bits {
        ($($t:ty),*) => {$(
            impl Bits for $t {
                #[inline]
                fn to_bits(self) -> u64 {
                    self as u64
                }
                #[inline]
                fn from_bits(b: u64) -> Self {
                    b as $t
                }
            }
        )*};
    }
    int_bits!(usize, u64, isize);
    impl Bits for bool {
        #[inline]
        fn to_bits(self) -> u64 {
            self as u64
        }
        #[inline]
        fn from_bits(b: u64) -> Self {
            b != 0
        }
    }

    macro_rules! int_atomic {
        ($name:ident, $std:ty, $t:ty) => {
            #[derive(Debug, Default)]
            #[repr(transparent)]
            pub struct $name(pub $std);
            impl $name {
                pub const fn new(v: $t) -> Self {
                    Self(<$std>::new(v))
                }
                #[inline]
                #[track_caller]
                pub fn load(&self, o: Ordering) -> $t {
                    point(Op::Load, self as *const _ as usize);
                    if let Some(b) = forward_load(self as *const _ as usize) {
                        return <$t as Bits>::from_bits(b);
                    }
                    self.0.load(o)
                }
                #[inline]
                #[track_caller]
                pub fn store(&self, v: $t, o: Ordering) {
                    point(Op::Store, self as *const _ as usize);
                    if o == Ordering::SeqCst
                        || !defer_store(
                            self as *const _ as usize,
                            std::mem::size_of::<$t>(),
                            Bits::to_bits(v),
                        )
                    {
                        self.0.store(v, o);
                    }
                    post(self as *const _ as usize)
                }
                #[inline]
                #[track_caller]
                pub fn swap(&self, v: $t, o: Ordering) -> $t {
                    point(Op::Rmw, self as *const _ as usize);
                    let r = self.0.swap(v, o);
                    post(self as *const _ as usize);
                    r
                }
                #[inline]
                #[track_caller]
                pub fn compare_exchange(
                    &self,
                    c: $t,
                    n: $t,
                    s: Ordering,
                    f: Ordering,
                ) -> Result<$t, $t> {
                    point(Op::Rmw, self as *const _ as usize);
                    let r = self.0.compare_exchange(c, n, s, f);
                    post(self as *const _ as usize);
                    r
                }
                /// never fails spuriously when hooks are compiled in
                #[inline]
                #[track_caller]
                pub fn compare_exchange_weak(
                    &self,
                    c: $t,
                    n: $t,
                    s: Ordering,
                    f: Ordering,
                ) -> Result<$t, $t> {
                    point(Op::Rmw, self as *const _ as usize);
                    let r = self.0.compare_exchange(c, n, s, f);
                    post(self as *const _ as usize);
                    r
                }
                /// unsynchronized load, reported as a load
                ///
                /// # Safety
                ///
                /// see the production wrapper in `atomic.rs`
                #[inline]
                #[track_caller]
                pub unsafe fn unsync_load(&self) -> $t {
                    point(Op::Load, self as *const _ as usize);
                    if let Some(b) = forward_load(self as *const _ as usize) {
                        return <$t as Bits>::from_bits(b);
                    }
                    self.0.load(Ordering::Relaxed)
                }
            }
            impl From<$t> for $name {
                fn from(v: $t) -> Self {
                    Self::new(v)
                }
            }
        };
    }

    macro_rules! int_fetch {
        ($name:ident, $t:ty) => {
            impl $name {
                #[inline]
                #[track_caller]
                pub fn fetch_add(&self, v: $t, o: Ordering) -> $t {
                    point(Op::Rmw, self as *const _ as usize);
                    let r = self.0.fetch_add(v, o);
                    post(self as *const _ as usize);
                    r
                }
                #[inline]
                #[track_caller]
                pub fn fetch_sub(&self, v: $t, o: Ordering) -> $t {
                    point(Op::Rmw, self as *const _ as usize);
                    let r = self.0.fetch_sub(v, o);
                    post(self as *const _ as usize);
                    r
                }
                #[inline]
                #[track_caller]
                pub fn fetch_or(&self, v: $t, o: Ordering) -> $t {
                    point(Op::Rmw, self as *const _ as usize);
                    let r = self.0.fetch_or(v, o);
                    post(self as *const _ as usize);
                    r
                }
                #[inline]
                #[track_caller]
                pub fn fetch_and(&self, v: $t, o: Ordering) -> $t {
                    point(Op::Rmw, self as *const _ as usize);
                    let r = self.0.fetch_and(v, o);
                    post(self as *const _ as usize);
                    r
                }
            }
        };
    }

    int_atomic!(AtomicUsize, std::sync::atomic::AtomicUsize, usize);
    int_atomic!(AtomicU64, std::sync::atomic::AtomicU64, u64);
    int_atomic!(AtomicIsize, std::sync::atomic::AtomicIsize, isize);
    int_atomic!(AtomicBool, std::sync::atomic::AtomicBool, bool);
    int_fetch!(AtomicUsize, usize);
    int_fetch!(AtomicU64, u64);
    int_fetch!(AtomicIsize, isize);

    #[repr(transparent)]
    pub struct AtomicPtr<T>(pub std::sync::atomic::AtomicPtr<T>);

    impl<T> std::fmt::Debug for AtomicPtr<T> {
        fn fmt(&self, f: &mut std::fmt::Formatter<'_>) -> std::fmt::Result {
            self.0.fmt(f)
        }
    }

    impl<T> AtomicPtr<T> {
        pub const fn new(v: *mut T) -> Self {
            Self(std::sync::atomic::AtomicPtr::new(v))
        }
        #[inline]
        #[track_caller]
        pub fn load(&self, o: Ordering) -> *mut T {
            point(Op::Load, self as *const _ as usize);
            if let Some(b) = forward_load(self as *const _ as usize) {
                return b as usize as *mut T;
            }
            self.0.load(o)
        }
        #[inline]
        #[track_caller]
        pub fn store(&self, v: *mut T, o: Ordering) {
            point(Op::Store, self as *const _ as usize);
            if o == Ordering::SeqCst
                || !defer_store(
                    self as *const _ as usize,
                    std::mem::size_of::<usize>(),
                    v as usize as u64,
                )
            {
                self.0.store(v, o);
            }
            post(self as *const _ as usize)
        }
        #[inline]
        #[track_caller]
        pub fn swap(&self, v: *mut T, o: Ordering) -> *mut T {
            point(Op::Rmw, self as *const _ as usize);
            let r = self.0.swap(v, o);
            post(self as *const _ as usize);
            r
        }
        #[inline]
        #[track_caller]
        pub fn compare_exchange(
            &self,
            c: *mut T,
            n: *mut T,
            s: Ordering,
            f: Ordering,
        ) -> Result<*mut T, *mut T> {
            point(Op::Rmw, self as *const _ as usize);
            let r = self.0.compare_exchange(c, n, s, f);
            post(self as *const _ as usize);
            r
        }
        /// never fails spuriously when hooks are compiled in
        #[inline]
        #[track_caller]
        pub fn compare_exchange_weak(
            &self,
            c: *mut T,
            n: *mut T,
            s: Ordering,
            f: Ordering,
        ) -> Result<*mut T, *mut T> {
            point(Op::Rmw, self as *const _ as usize);
            let r = self.0.compare_exchange(c, n, s, f);
            post(self as *const _ as usize);
            r
        }
        /// unsynchronized load, reported as a load
        ///
        /// # Safety
        ///
        /// see the production wrapper in `atomic.rs`
        #[inline]
        #[track_caller]
        pub unsafe fn unsync_load(&self) -> *mut T {
            point(Op::Load, self as *const _ as usize);
            if let Some(b) = forward_load(self as *const _ as usize) {
                return b as usize as *mut T;
            }
            self.0.load(Ordering::Relaxed)
        }
    }
}

/// engine aware `std::thread` facade
pub mod thread {
    use super::hooks;
    pub use std::thread::*;
    use std::time::Duration;

    pub fn spawn<F, T>(f: F) -> JoinHandle<T>
    where
        F: FnOnce() -> T + Send + 'static,
        T: Send + 'static,
    {
        match hooks() {
            Some(h) => {
                let token = h.thread_create();
                std::thread::spawn(move || {
                    h.thread_start(token);
                    match std::panic::catch_unwind(std::panic::AssertUnwindSafe(f)) {
                        Ok(r) => {
                            h.thread_exit(false);
                            r
                        }
                        Err(e) => {
                            h.thread_exit(true);
                            std::panic::resume_unwind(e)
                        }
                    }
                })
            }
            None => std::thread::spawn(f),
        }
    }

    pub fn park() {
        if let Some(h) = hooks() {
            h.pre_park(None);
        }
        std::thread::park();
    }

    pub fn park_timeout(d: Duration) {
        if let Some(h) = hooks() {
            h.pre_park(Some(d.as_nanos() as u64));
        }
        std::thread::park_timeout(d);
    }

    pub fn sleep(d: Duration) {
        match hooks() {
            Some(h) => h.sleep(d.as_nanos() as u64),
            None => std::thread::sleep(d),
        }
    }
}

/// `std::time::Instant` replacement that follows the virtual clock
#[derive(Clone, Copy, Debug, PartialEq, Eq, PartialOrd, Ord)]
pub enum Instant {
    Real(std::time::Instant),
    Virt(u64),
}

impl Instant {
    pub fn now() -> Instant {
        match now_ns() {
            Some(n) => Instant::Virt(n),
            None => Instant::Real(std::time::Instant::now()),
        }
    }
}

impl std::ops::Add<std::time::Duration> for Instant {
    type Output = Instant;
    fn add(self, d: std::time::Duration) -> Instant {
        match self {
            Instant::Real(i) => Instant::Real(i + d),
            Instant::Virt(n) => Instant::Virt(n.saturating_add(d.as_nanos() as u64)),
        }
    }
}
