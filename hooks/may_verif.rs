//! Verification shims, compiled only with `--cfg may_verif`.
//!
//! Re-exports the hook registry of `may_queue` and adds the engine aware
//! replacements for the `parking_lot` and `crossbeam` types used by may.
pub use may_queue::verif::*;

// narrow seams for component level harnesses
pub use crate::sync::atomic_dur::AtomicDuration;
pub use crate::timeout_list::{now, TimeOutList, TimeoutHandle, TimerThread};

/// delegating wrapper of `crossbeam::queue::SegQueue`, each operation is one step
pub struct SegQueue<T>(crossbeam::queue::SegQueue<T>);

impl<T> SegQueue<T> {
    pub const fn new() -> Self {
        SegQueue(crossbeam::queue::SegQueue::new())
    }

    #[inline]
    #[track_caller]
    pub fn push(&self, t: T) {
        point(Op::Rmw, self as *const _ as usize);
        self.0.push(t)
    }

    #[inline]
    #[track_caller]
    pub fn pop(&self) -> Option<T> {
        point(Op::Rmw, self as *const _ as usize);
        self.0.pop()
    }

    #[inline]
    #[track_caller]
    pub fn is_empty(&self) -> bool {
        point(Op::Load, self as *const _ as usize);
        self.0.is_empty()
    }

    #[inline]
    #[track_caller]
    pub fn len(&self) -> usize {
        point(Op::Load, self as *const _ as usize);
        self.0.len()
    }
}

impl<T> Default for SegQueue<T> {
    fn default() -> Self {
        Self::new()
    }
}

/// engine aware replacements for the `parking_lot` types used by may
pub mod lock {
    use may_queue::verif::hooks;
    use std::ops::{Deref, DerefMut};
    use std::time::Duration;

    #[derive(Debug, Default)]
    pub struct Mutex<T>(parking_lot::Mutex<T>);

    pub struct MutexGuard<'a, T> {
        g: Option<parking_lot::MutexGuard<'a, T>>,
        addr: usize,
    }

    impl<T> Mutex<T> {
        pub const fn new(t: T) -> Self {
            Mutex(parking_lot::Mutex::new(t))
        }

        pub fn lock(&self) -> MutexGuard<'_, T> {
            let addr = self as *const _ as usize;
            if let Some(h) = hooks() {
                h.lock(addr);
            }
            MutexGuard {
                g: Some(self.0.lock()),
                addr,
            }
        }
    }

    impl<T> Deref for MutexGuard<'_, T> {
        type Target = T;
        fn deref(&self) -> &T {
            self.g.as_ref().unwrap()
        }
    }

    impl<T> DerefMut for MutexGuard<'_, T> {
        fn deref_mut(&mut self) -> &mut T {
            self.g.as_mut().unwrap()
        }
    }

    impl<T> Drop for MutexGuard<'_, T> {
        fn drop(&mut self) {
            self.g.take();
            if let Some(h) = hooks() {
                h.unlock(self.addr);
            }
        }
    }

    pub struct WaitTimeoutResult(bool);

    impl WaitTimeoutResult {
        pub fn timed_out(&self) -> bool {
            self.0
        }
    }

    #[derive(Debug, Default)]
    pub struct Condvar(parking_lot::Condvar);

    impl Condvar {
        pub const fn new() -> Self {
            Condvar(parking_lot::Condvar::new())
        }

        pub fn wait<T>(&self, guard: &mut MutexGuard<'_, T>) {
            match hooks() {
                Some(h) => {
                    let cv = self as *const _ as usize;
                    let l = guard.addr;
                    parking_lot::MutexGuard::unlocked(guard.g.as_mut().unwrap(), || {
                        h.cv_wait(cv, l, None);
                    });
                }
                None => self.0.wait(guard.g.as_mut().unwrap()),
            }
        }

        pub fn wait_for<T>(&self, guard: &mut MutexGuard<'_, T>, d: Duration) -> WaitTimeoutResult {
            match hooks() {
                Some(h) => {
                    let cv = self as *const _ as usize;
                    let l = guard.addr;
                    let mut to = false;
                    parking_lot::MutexGuard::unlocked(guard.g.as_mut().unwrap(), || {
                        to = h.cv_wait(cv, l, Some(d.as_nanos() as u64));
                    });
                    WaitTimeoutResult(to)
                }
                None => {
                    WaitTimeoutResult(self.0.wait_for(guard.g.as_mut().unwrap(), d).timed_out())
                }
            }
        }

        pub fn notify_one(&self) {
            match hooks() {
                Some(h) => h.cv_notify(self as *const _ as usize, false),
                None => {
                    self.0.notify_one();
                }
            }
        }
    }

    /// readers are exclusive under the engine, the read sections of may
    /// contain no hook point so this is not observable
    #[derive(Debug, Default)]
    pub struct RwLock<T>(Mutex<T>);

    impl<T> RwLock<T> {
        pub const fn new(t: T) -> Self {
            RwLock(Mutex::new(t))
        }

        pub fn read(&self) -> MutexGuard<'_, T> {
            self.0.lock()
        }

        pub fn write(&self) -> MutexGuard<'_, T> {
            self.0.lock()
        }
    }
}
