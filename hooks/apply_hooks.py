#!/usr/bin/env python3
"""Applies the add-only `cfg(may_verif)` hooks to a checkout of may (run in its root).

Kept for documentation and to re-create the hook commits on a fresh checkout; the
hooks themselves are committed in /repo.  Every edit only *adds* lines: an
existing `use` gets a `#[cfg(not(may_verif))]` line above and cfg'd twins below,
statements get a cfg'd pre-hook statement in front.  The new files
may_queue/src/verif.rs and src/verif.rs are copied from /verif/hooks/.
"""
import re, sys, os, shutil

HERE = os.path.dirname(os.path.abspath(__file__))

def rd(p): return open(p).read()
def wr(p, s): open(p, 'w').write(s)

def insert_before(p, needle, new, count=1, all_=False, skip=0):
    lines = rd(p).split('\n'); out = []; n = 0; seen = 0
    for ln in lines:
        if needle in ln:
            seen += 1
            if seen > skip and (all_ or n < count):
                ind = re.match(r'\s*', ln).group(0)
                for nl in new.split('\n'): out.append(ind + nl)
                n += 1
        out.append(ln)
    assert n > 0, (p, needle)
    wr(p, '\n'.join(out))

def insert_after(p, needle, new, count=1, skip=0):
    lines = rd(p).split('\n'); out = []; n = 0; seen = 0
    for ln in lines:
        out.append(ln)
        if needle in ln:
            seen += 1
            if seen > skip and n < count:
                ind = re.match(r'\s*', ln).group(0)
                for nl in new.split('\n'): out.append(ind + nl)
                n += 1
    assert n > 0, (p, needle)
    wr(p, '\n'.join(out))

def twin(p, line, repl):
    """prepend cfg(not) to the first exact occurrence of `line`, add cfg'd replacement lines after"""
    lines = rd(p).split('\n'); out = []; done = False
    for ln in lines:
        if not done and ln == line:
            out.append('#[cfg(not(may_verif))]'); out.append(ln)
            for r in repl:
                out.append('#[cfg(may_verif)]'); out.append(r)
            done = True
        else:
            out.append(ln)
    assert done, (p, line)
    wr(p, '\n'.join(out))

def stage_may_queue():
    shutil.copy(os.path.join(HERE, 'may_queue_verif.rs'), 'may_queue/src/verif.rs')
    wr('may_queue/src/atomic_verif.rs',
       '//! selected instead of `atomic.rs` with `--cfg may_verif`\n'
       'pub(crate) use crate::verif::atomic::{AtomicPtr, AtomicUsize};\n')
    twin('may_queue/src/lib.rs', 'mod atomic;', ['#[path = "atomic_verif.rs"]\nmod atomic;', 'pub mod verif;'])
    for f in ['may_queue/src/mpsc_list_v1.rs', 'may_queue/src/mpsc_list.rs']:
        twin(f, 'use std::sync::atomic::{AtomicPtr, Ordering};',
             ['use crate::verif::atomic::AtomicPtr;', 'use std::sync::atomic::Ordering;'])
        insert_before(f, 'backoff.snooze();', '#[cfg(may_verif)]\ncrate::verif::spin_hint();', all_=True)
    V = 'may_queue/src/mpsc_list_v1.rs'
    insert_before(V, 'let tail = *self.tail.get();',
                  '#[cfg(may_verif)]\ncrate::verif::point(crate::verif::Op::PlainRead, self.tail.get() as usize);')
    insert_before(V, '*self.tail.get() = next;',
                  '#[cfg(may_verif)]\ncrate::verif::point(crate::verif::Op::PlainWrite, self.tail.get() as usize);', all_=True)
    M = 'may_queue/src/mpsc.rs'
    insert_before(M, 'std::hint::spin_loop();', '#[cfg(may_verif)]\ncrate::verif::spin_hint();', all_=True)
    insert_before(M, 'backoff.spin();', '#[cfg(may_verif)]\ncrate::verif::spin_hint();', all_=True)
    S = 'may_queue/src/spmc.rs'
    insert_before(S, 'backoff.spin();', '#[cfg(may_verif)]\ncrate::verif::spin_hint();', all_=True)
    insert_before(S, 'std::thread::sleep(std::time::Duration::from_millis(10));',
                  '#[cfg(may_verif)]\nif crate::verif::spin_wait() {\n    continue;\n}', all_=True)
    insert_before(S, 'std::thread::sleep(std::time::Duration::from_millis(10));', '#[cfg(may_verif)]\ncrate::verif::label("spmc.pop.wait_claimed", 0);', count=1)
    insert_before(S, 'std::thread::sleep(std::time::Duration::from_millis(10));', '#[cfg(may_verif)]\ncrate::verif::label("spmc.bulk_pop.wait_claimed", 0);', count=1, skip=1)
    # the Err arm of bulk_pop has no backoff
    s = rd(S)
    old = """                Err(i) => {
                    head = i;
                    push_index = self.tail.index.load(Ordering::Acquire);
                    tail_block = self.tail.block.load(Ordering::Acquire);
                }
            }
        }
    }

    /// get the size of queue"""
    assert s.count(old) == 1
    s = s.replace(old, old.replace("                    head = i;\n",
        "                    head = i;\n                    #[cfg(may_verif)]\n                    crate::verif::spin_hint();\n"))
    wr(S, s)
    # payload cells
    CW = '#[cfg(may_verif)]\ncrate::verif::cell(crate::verif::Op::CellWrite, data.value.get() as usize);'
    CR = '#[cfg(may_verif)]\ncrate::verif::cell(crate::verif::Op::CellRead, data.value.get() as usize);'
    for f in [M, S, 'may_queue/src/spsc.rs']:
        insert_before(f, 'data.value.get().write(MaybeUninit::new(v));', CW, all_=True)
        insert_before(f, 'data.value.get().read().assume_init()', CR, all_=True)
    for f in [M, 'may_queue/src/spsc.rs']:
        insert_before(f, '(*data.value.get()).assume_init_ref()', CR, all_=True)
    # operation brackets (coarse granularity)
    for f, fns in [
        (M, ['pub fn push(&self, v: T) {', 'pub fn pop(&self) -> Option<T> {',
             'pub fn bulk_pop(&self) -> SmallVec<[T; BLOCK_SIZE]> {', 'pub unsafe fn peek(&self) -> Option<&T> {',
             'pub fn len(&self) -> usize {']),
        (S, ['pub fn push(&self, v: T) {', 'pub fn pop(&self) -> Option<T> {', 'fn local_pop(&self) -> Option<T> {',
             'pub fn bulk_pop(&self) -> SmallVec<[T; BLOCK_SIZE]> {', 'pub fn is_empty(&self) -> bool {']),
        ('may_queue/src/spsc.rs', ['pub fn push(&self, v: T) {', 'pub fn pop(&self) -> Option<T> {',
             'pub fn bulk_pop(&self) -> SmallVec<[T; BLOCK_SIZE]> {', 'pub unsafe fn peek(&self) -> Option<&T> {',
             'pub fn len(&self) -> usize {']),
        (V, ['pub fn push(&self, t: T) -> (Entry<T>, bool) {', 'pub fn pop(&self) -> Option<T> {',
             'pub fn remove(mut self) -> Option<T> {', 'pub fn is_empty(&self) -> bool {',
             'pub unsafe fn peek(&self) -> Option<&T> {']),
        ('may_queue/src/mpsc_list.rs', ['pub fn push(&self, t: T) {', 'pub fn pop(&self) -> Option<T> {']),
    ]:
        for fn in fns:
            s = rd(f)
            if fn not in s:
                print('  (no such fn, skipped)', f, fn); continue
            i = s.index(fn); ln_start = s.rfind('\n', 0, i) + 1; ind = s[ln_start:i]
            s = s[:i + len(fn)] + '\n' + ind + '    #[cfg(may_verif)]\n' + ind + '    let _vb = crate::verif::Bracket::new();' + s[i + len(fn):]
            wr(f, s)
    # pop_if has a where clause
    s = rd(V)
    old = "        F: Fn(&T) -> bool,\n    {\n        unsafe {\n            let tail = *self.tail.get();"
    assert s.count(old) == 1
    s = s.replace(old, "        F: Fn(&T) -> bool,\n    {\n        #[cfg(may_verif)]\n        let _vb = crate::verif::Bracket::new();\n        unsafe {\n            let tail = *self.tail.get();")
    wr(V, s)
    insert_after('may_queue/build.rs', 'println!("cargo:rustc-check-cfg=cfg(nightly)");',
                 'println!("cargo:rustc-check-cfg=cfg(may_verif)");')

A = 'crate::verif::atomic::'
def atw(p, names, line=None):
    line = line or 'use std::sync::atomic::{' + ', '.join(names + ['Ordering']) + '};'
    twin(p, line, ['use ' + A + '{' + ', '.join(names) + '};' if len(names) > 1 else 'use ' + A + names[0] + ';',
                   'use std::sync::atomic::Ordering;'])

def stage_may_shims():
    shutil.copy(os.path.join(HERE, 'may_verif.rs'), 'src/verif.rs')
    insert_after('src/lib.rs', 'mod yield_now;', '#[cfg(may_verif)]\npub mod verif;')
    insert_after('build.rs', 'println!("cargo:rustc-check-cfg=cfg(nightly)");',
                 'println!("cargo:rustc-check-cfg=cfg(may_verif)");')
    atw('src/park.rs', ['AtomicBool', 'AtomicPtr'])
    atw('src/join.rs', ['AtomicBool'])
    atw('src/cancel.rs', ['AtomicUsize'])
    atw('src/pool.rs', ['AtomicUsize'])
    atw('src/scheduler.rs', ['AtomicUsize'])
    atw('src/timeout_list.rs', ['AtomicUsize'])
    atw('src/cqueue.rs', ['AtomicBool', 'AtomicUsize'])
    twin('src/sync/mutex.rs', 'use std::sync::atomic::{fence, AtomicUsize, Ordering};',
         ['use ' + A + 'AtomicUsize;', 'use std::sync::atomic::{fence, Ordering};'])
    atw('src/sync/semphore.rs', ['AtomicIsize'])
    atw('src/sync/sync_flag.rs', ['AtomicIsize'])
    atw('src/sync/condvar.rs', ['AtomicUsize'])
    atw('src/sync/rwlock.rs', ['AtomicUsize'])
    atw('src/sync/mpsc.rs', ['AtomicBool', 'AtomicUsize'])
    atw('src/sync/spsc.rs', ['AtomicBool', 'AtomicUsize'])
    atw('src/sync/mpmc.rs', ['AtomicUsize'])
    atw('src/sync/poison.rs', ['AtomicUsize'])
    atw('src/sync/blocking.rs', ['AtomicBool'])
    atw('src/sync/atomic_dur.rs', ['AtomicUsize'])
    atw('src/io/sys/unix/mod.rs', ['AtomicUsize'])
    # AtomicOption: every operation is one reported step
    P = '#[cfg(may_verif)]\ncrate::verif::point(crate::verif::Op::Rmw, self as *const _ as usize);'
    f = 'src/sync/atomic_option.rs'
    insert_before(f, 'self.inner.store(Some(t));', P)
    insert_before(f, 'self.inner.take()', P)
    insert_before(f, 'self.inner.store(None)', P)
    for sig in ['pub fn store(&self, t: T) {', 'pub fn take(&self) -> Option<T> {', 'pub fn clear(&self) {']:
        insert_before(f, sig, '#[cfg_attr(may_verif, track_caller)]')
    # SegQueue
    for f in ['src/pool.rs', 'src/sync/semphore.rs', 'src/sync/sync_flag.rs', 'src/sync/condvar.rs',
              'src/sync/rwlock.rs', 'src/sync/mpmc.rs']:
        twin(f, 'use crossbeam::queue::SegQueue;', ['use crate::verif::SegQueue;'])
    # parking_lot
    twin('src/sync/blocking.rs', 'use parking_lot::{Condvar, Mutex};', ['use crate::verif::lock::{Condvar, Mutex};'])
    twin('src/timeout_list.rs', 'use parking_lot::{Mutex, RwLock};', ['use crate::verif::lock::{Mutex, RwLock};'])
    # Instant
    for f in ['src/sync/mpsc.rs', 'src/cqueue.rs']:
        twin(f, 'use std::time::{Duration, Instant};', ['use crate::verif::Instant;', 'use std::time::Duration;'])

def stage_may_blocking():
    # threads
    for f in ['src/scheduler.rs', 'src/timeout_list.rs', 'src/sleep.rs']:
        twin(f, 'use std::thread;', ['use crate::verif::thread;'])
    insert_before('src/yield_now.rs', 'std::thread::park();', '#[cfg(may_verif)]\ncrate::verif::pre_park();')
    insert_before('src/yield_now.rs', 'return std::thread::yield_now();', '#[cfg(may_verif)]\ncrate::verif::yield_hint();')
    insert_before('src/yield_now.rs', 'get_scheduler().schedule(co);', '#[cfg(may_verif)]\ncrate::verif::yield_hint();')
    insert_before('src/sync/spsc.rs', 'std::thread::park();', '#[cfg(may_verif)]\ncrate::verif::pre_park();')
    insert_before('src/sync/spsc.rs', 'thread.unpark();', '#[cfg(may_verif)]\ncrate::verif::pre_unpark(&thread);')
    insert_before('src/io/thread.rs', 'parker.unpark();', '#[cfg(may_verif)]\ncrate::verif::pre_unpark(&parker);')
    insert_before('src/timeout_list.rs', 't.unpark();', '#[cfg(may_verif)]\ncrate::verif::pre_unpark(&t);', all_=True)
    # epoll
    insert_before('src/io/sys/unix/epoll.rs', 'let n = epoll.wait(events, timeout_ms)?;',
        '#[cfg(may_verif)]\nlet timeout_ms = {\n    use std::os::fd::AsRawFd;\n    let ms: i32 = timeout_ms.into();\n'
        '    if crate::verif::pre_epoll(epoll.0.as_raw_fd(), ms as i64) {\n        EpollTimeout::ZERO\n    } else {\n'
        '        timeout_ms\n    }\n};')
    # clock
    insert_before('src/timeout_list.rs', '    // we need a Monotonic Clock here',
                  '#[cfg(may_verif)]\nif let Some(n) = crate::verif::now_ns() {\n    return n;\n}')
    # residency of coroutines
    f = 'src/coroutine_impl.rs'
    insert_before(f, 'let resource = unsafe { &mut *self.resource };',
                  '#[cfg(may_verif)]\ncrate::verif::co_resume(false, get_co_local(&c) as usize);')
    insert_before(f, 'match co.resume() {', '#[cfg(may_verif)]\ncrate::verif::co_resume(true, get_co_local(&co) as usize);')
    insert_before(f, '// panic happened here', '#[cfg(may_verif)]\ncrate::verif::co_resume(false, get_co_local(&co) as usize);')
    # labels (causal witnesses for oracles / known findings)
    L = lambda name, arg='0': '#[cfg(may_verif)]\ncrate::verif::label("%s", %s);' % (name, arg)
    insert_after('src/park.rs', 'self.set_timeout_handle(timeout_handle);', L('park.subscribe.timer_armed', 'Arc::as_ptr(&self.wait_co) as usize'))
    insert_after('src/park.rs', 'self.wait_co.store(co);', L('park.subscribe.stored', 'Arc::as_ptr(&self.wait_co) as usize'))
    # the two wait-for-kernel loops of Park (first: park_timeout, second: drop)
    insert_before('src/park.rs', 'yield_now();', L('park.wait_kernel'), count=1)
    insert_before('src/park.rs', 'yield_now();', L('park.drop.wait_kernel'), count=1, skip=2)
    insert_before('src/scheduler.rs', 'if let Some(mut co) = c.take() {', L('timer.handler.take', 'Arc::as_ptr(&c) as usize'))
    insert_after('src/scheduler.rs', 'if let Some(mut co) = c.take() {', L('timer.handler.resumed', 'Arc::as_ptr(&c) as usize'))
    insert_after('src/sync/spsc.rs', 'wait_co.store(Blocker::new_coroutine(co));', L('spsc.subscribe.stored'))
    insert_before('src/sync/spsc.rs', 'self.channels.store(0, Ordering::Relaxed);', L('spsc.drop_chan'))
    insert_before('src/io/sys/unix/mod.rs', 'let event_data = unsafe { &mut *data.event_data };', L('io.timeout_handler.live'))
    insert_after('src/io/sys/unix/mod.rs', 'set_co_para(&mut co, io::Error::new(io::ErrorKind::TimedOut, "timeout"));', L('io.timeout_handler.resumed'))
    for f in ['src/io/sys/unix/net/socket_read.rs', 'src/io/sys/unix/net/tcp_stream_connect.rs']:
        insert_before(f, 'io_data.co.store(co);', L('io.subscribe.before_store'))

if __name__ == '__main__':
    stages = sys.argv[1:] or ['queue', 'shims', 'blocking']
    if 'queue' in stages: stage_may_queue()
    if 'shims' in stages: stage_may_shims()
    if 'blocking' in stages: stage_may_blocking()
    print('patched', stages)
