// Brute-force variant of the demonstration: no sleeps inside the library.
// A coroutine waits for a mutex held by the main thread; the main thread cancels it and,
// a random few microseconds later, releases the mutex. After the waiter is gone nobody owns
// the mutex, so try_lock must succeed. Bounded by ITER iterations / a wall clock budget.

use std::sync::atomic::{AtomicBool, Ordering};
use std::sync::Arc;
use std::time::{Duration, Instant};

use may::sync::Mutex;

#[test]
fn cancel_vs_unlock_stress() {
    may::config().set_workers(2);
    let iters: usize = std::env::var("ITER").ok().and_then(|s| s.parse().ok()).unwrap_or(2_000_000);
    let budget = Duration::from_secs(
        std::env::var("BUDGET_SECS").ok().and_then(|s| s.parse().ok()).unwrap_or(240),
    );
    let max_delay_ns: u64 = std::env::var("MAX_DELAY_NS").ok().and_then(|s| s.parse().ok()).unwrap_or(30_000);
    let start = Instant::now();
    let mut seed = 0x9E3779B97F4A7C15u64;

    for i in 0..iters {
        if start.elapsed() > budget {
            println!("budget used up after {i} iterations, no violation seen");
            return;
        }
        let m = Arc::new(Mutex::new(0usize));
        let g = m.lock().unwrap();

        let at_lock = Arc::new(AtomicBool::new(false));
        let (m2, a2) = (m.clone(), at_lock.clone());
        let w = may::go!(move || {
            a2.store(true, Ordering::SeqCst);
            let mut g = m2.lock().unwrap();
            *g += 1;
        });
        while !at_lock.load(Ordering::SeqCst) {
            std::hint::spin_loop();
        }
        // let it park
        let t = Instant::now();
        while t.elapsed() < Duration::from_micros(20) {
            std::hint::spin_loop();
        }

        unsafe { w.coroutine().cancel() };

        seed ^= seed << 13;
        seed ^= seed >> 7;
        seed ^= seed << 17;
        let delay = Duration::from_nanos(seed % max_delay_ns);
        let t = Instant::now();
        while t.elapsed() < delay {
            std::hint::spin_loop();
        }
        drop(g);

        let _ = w.join();
        // the waiter either got the lock and finished, or was cancelled; the mutex is free
        let t = Instant::now();
        loop {
            if m.try_lock().is_ok() {
                break;
            }
            if t.elapsed() > Duration::from_secs(2) {
                panic!(
                    "iteration {i}: mutex is free but try_lock keeps reporting WouldBlock (after {:?})",
                    start.elapsed()
                );
            }
            std::thread::yield_now();
        }
    }
    println!("{iters} iterations, no violation seen");
}
