#!/bin/bash
# usage: selftest/try.sh <patch> <PROP> [tier]   -- apply a patch to /repo, run the check, undo the patch
P="$(realpath "$1")"; ID="$2"; TIER="${3:-quick}"
git -C /repo apply "$P" || { echo "patch does not apply"; exit 3; }
/verif/check "$ID" --tier "$TIER" > /tmp/selftest.out 2>/tmp/selftest.err; RC=$?
git -C /repo checkout -- . 
# rebuild, so that no mutant binary is left behind
(cd /verif/harness && CARGO_NET_OFFLINE=true cargo build --offline >/dev/null 2>&1)
grep -E "^(VIOLATION|KNOWN-FINDING|MACHINERY|C[0-9]+ )" /tmp/selftest.out | cut -c1-200 | head -8
grep -E "^--- " /tmp/selftest.err | awk '{print $2, $3}' | sort | uniq -c | sort -rn | head -5
grep -E "^MACHINERY" /tmp/selftest.err | cut -c1-300 | head -3
echo "exit=$RC"
