#!/usr/bin/env python3
"""Self-test mutants: small property-breaking edits of may, one per entry.

usage: mutants.py gen      -> writes selftest/mutants/<id>.diff for every entry (against /repo HEAD)
       mutants.py list
Each entry: (id, property, file, old, new, note).  `old` must occur exactly once in the file.
"""
import os, subprocess, sys, tempfile, shutil

M = []
def m(id, prop, file, old, new, note=""):
    M.append((id, prop, file, old, new, note))

# ---------------------------------------------------------------- C01
m("C01-trigger-take-before-state", "C01", "src/join.rs",
  """        self.state.store(false, Ordering::Release);
        if let Some(w) = self.to_wake.take() {
            w.unpark();
        }""",
  """        let w = self.to_wake.take();
        self.state.store(false, Ordering::Release);
        if let Some(w) = w {
            w.unpark();
        }""", "joiner registered between take and store is never woken")
m("C01-wakeup-before-push", "C01", "src/scheduler.rs",
  """        let global = unsafe { self.global_queues.get_unchecked(thread_id) };
        global.push(co);
        // signal one waiting thread if any
        self.get_selector().wakeup(thread_id);
    }

    /// put the coroutine to global queue so that next time it can be scheduled
    #[inline]
    pub fn schedule_global_with_id""",
  """        let global = unsafe { self.global_queues.get_unchecked(thread_id) };
        // signal one waiting thread if any
        self.get_selector().wakeup(thread_id);
        global.push(co);
    }

    /// put the coroutine to global queue so that next time it can be scheduled
    #[inline]
    pub fn schedule_global_with_id""", "worker drains the eventfd before the push: coroutine sits in the global queue until the next poll")
m("C01-collect-global-once", "C01", "src/scheduler.rs",
  """            v = global.bulk_pop();
        }
    }""",
  """            v = smallvec::SmallVec::new();
        }
    }""", "only the first block of the global queue is collected")
# ---------------------------------------------------------------- C02
m("C02-subscribe-no-recheck", "C02", "src/park.rs",
  """        if self.state.load(Ordering::Acquire) {
            // here may have recursive call for subscribe""",
  """        if false && self.state.load(Ordering::Acquire) {
            // here may have recursive call for subscribe""", "unpark between check_park and wait_co.store is lost")
m("C02-threadpark-notify-without-flag", "C02", "src/sync/blocking.rs",
  """        if *guard == 0 {
            *guard = 1;
            self.cvar.notify_one();
        }""",
  """        if *guard == 0 {
            self.cvar.notify_one();
            *guard = 1;
        }""", "harmless reorder under the lock (control: must NOT be reported)")
m("C02-check-park-no-swap", "C02", "src/park.rs",
  """        !self.state.swap(false, Ordering::AcqRel)""",
  """        !self.state.load(Ordering::Acquire)""", "token not consumed: a later park returns at once (spurious) - allowed for coroutine::park, not for fresh Blocker semantics")
# ---------------------------------------------------------------- C03
m("C03-ready-before-write", "C03", "may_queue/src/mpsc.rs",
  """            #[cfg(may_verif)]
            crate::verif::cell(crate::verif::Op::CellWrite, data.value.get() as usize);
            data.value.get().write(MaybeUninit::new(v));

            std::sync::atomic::fence(Ordering::Release);
            // mark the data ready
            data.ready.store(1, Ordering::Release);""",
  """            // mark the data ready
            data.ready.store(1, Ordering::Release);
            #[cfg(may_verif)]
            crate::verif::cell(crate::verif::Op::CellWrite, data.value.get() as usize);
            data.value.get().write(MaybeUninit::new(v));

            std::sync::atomic::fence(Ordering::Release);""", "slot published before it is written")
m("C03-pop-none-without-push-index", "C03", "may_queue/src/mpsc.rs",
  """                if pop_index >= self.push_index() {
                    return None;
                } else {
                    head.get(id)
                }""",
  """                return None;""", "pop reports empty while an earlier push has completed behind an in-flight one")
m("C03-spsc-index-before-set", "C03", "may_queue/src/spsc.rs",
  """        // store the data
        tail.set(push_index, v);

        // alloc new block node if the tail is full
        let new_index = push_index.wrapping_add(1);""",
  """        // alloc new block node if the tail is full
        let new_index = push_index.wrapping_add(1);
        if new_index & BLOCK_MASK != 0 {
            self.tail.index.store(new_index, Ordering::Release);
        }
        // store the data
        tail.set(push_index, v);
""", "index published before the slot is written (inside a block)")
# ---------------------------------------------------------------- C04
m("C04-mark-slots-read-le", "C04", "may_queue/src/spmc.rs",
  """        old == size""", """        old <= size + 1""", "block freed while one slot is still unread")
m("C04-steal-into-returns-oldest", "C04", "may_queue/src/spmc.rs",
  """        let ret = v.pop();
        for t in v {""",
  """        let ret = if v.is_empty() { None } else { Some(v.remove(0)) };
        for t in v {""", "steal_into returns the oldest task of the batch")
m("C04-pop-no-head-restore", "C04", "may_queue/src/spmc.rs",
  """                        if pop_index >= push_index {
                            // recover the old head, and return None
                            self.head.0.store(head, Ordering::Release);
                            return None;
                        }

                        let next = block.next.load(Ordering::Acquire);
                        self.head.0.store(next, Ordering::Release);
                    } else {
                        // we have to wait if there is enough data""",
  """                        if pop_index >= push_index {
                            // recover the old head, and return None
                            self.head.0.store(BlockPtr::pack(block, id), Ordering::Release);
                            return None;
                        }

                        let next = block.next.load(Ordering::Acquire);
                        self.head.0.store(next, Ordering::Release);
                    } else {
                        // we have to wait if there is enough data""", "control: equivalent restore (must NOT be reported)")
# ---------------------------------------------------------------- C05
m("C05-unlock-gt2", "C05", "src/sync/mutex.rs",
  """        if self.cnt.fetch_sub(1, Ordering::SeqCst) > 1 {""", """        if self.cnt.fetch_sub(1, Ordering::SeqCst) > 2 {""", "a single waiter is never woken")
m("C05-add-before-push", "C05", "src/sync/mutex.rs",
  """        // register blocker first
        self.to_wake.push(cur.clone());
        #[cfg(may_verif)]
        crate::verif::label("mutex.lock.registered", self as *const _ as *const u8 as usize);
        // inc the cnt, if it's the first grab, unpark the first waiter
        if self.cnt.fetch_add(1, Ordering::SeqCst) == 0 {
            #[cfg(may_verif)]
            crate::verif::label("mutex.lock.first_grab", self as *const _ as *const u8 as usize);
            self.to_wake
                .pop()
                .map(|w| self.unpark_one(&w))
                .expect("got null blocker!");
        }
        loop {""",
  """        // inc the cnt, if it's the first grab, unpark the first waiter
        let first = self.cnt.fetch_add(1, Ordering::SeqCst) == 0;
        // register blocker
        self.to_wake.push(cur.clone());
        #[cfg(may_verif)]
        crate::verif::label("mutex.lock.registered", self as *const _ as *const u8 as usize);
        if first {
            #[cfg(may_verif)]
            crate::verif::label("mutex.lock.first_grab", self as *const _ as *const u8 as usize);
            self.to_wake
                .pop()
                .map(|w| self.unpark_one(&w))
                .expect("got null blocker!");
        }
        loop {""", "unlock finds an empty waiter queue between the count and the push")
m("C05-cancel-no-unlock", "C05", "src/sync/mutex.rs",
  """                    if cur.is_unparked() {
                        if b_ignore {
                            break;
                        }
                        self.unlock();
                    } else {""",
  """                    if cur.is_unparked() {
                        if b_ignore {
                            break;
                        }
                    } else {""", "a cancelled waiter that was already handed the lock does not pass it on")
# ---------------------------------------------------------------- C06 / C07
m("C06-mpsc-take-before-push", "C06", "src/sync/mpsc.rs",
  """        self.queue.push(t);
        if let Some(w) = self.to_wake.take() {
            w.unpark();
        }
        Ok(())""",
  """        let w = self.to_wake.take();
        self.queue.push(t);
        if let Some(w) = w {
            w.unpark();
        }
        Ok(())""", "receiver registering between take and push is never woken")
m("C06-mpmc-post-before-push", "C06", "src/sync/mpmc.rs",
  """        self.queue.push(t);
        self.sem.post();
        Ok(())""",
  """        self.sem.post();
        self.queue.push(t);
        Ok(())""", "receiver with a permit finds the queue empty")
m("C06-mpsc-recv-no-recheck", "C06", "src/sync/mpsc.rs",
  """        match self.try_recv() {
            Err(TryRecvError::Empty) => {
                cur.park(dur).ok();
            }
            data => {
                // no need to park, contention with send
                self.to_wake.clear();
                return data;
            }
        }""",
  """        cur.park(dur).ok();""", "send before registration is missed")
m("C07-mpsc-drop-chan-no-unpark", "C07", "src/sync/mpsc.rs",
  """            1 => self.to_wake.take().map(|w| w.unpark()).unwrap_or(()),""", """            1 => {}""", "parked receiver is not woken by the last sender's drop")
m("C07-drop-port-flag-after-drain", "C07", "src/sync/mpsc.rs",
  """        self.port_dropped.store(true, Ordering::Release);
        // clear all the data
        while self.queue.pop().is_some() {}""",
  """        // clear all the data
        while self.queue.pop().is_some() {}
        self.port_dropped.store(true, Ordering::Release);""", "control-ish: values sent during the drain stay queued until the channel is freed (still dropped once)")
# ---------------------------------------------------------------- C08
m("C08-pop-timeout-lt", "C08", "src/timeout_list.rs",
  """        let p = |v: &TimeoutData<T>| v.time <= now;""", """        let p = |v: &TimeoutData<T>| v.time < now;""", "a timer due exactly now is skipped, the list is not re-armed")
m("C08-add-timer-no-wake", "C08", "src/timeout_list.rs",
  """        if is_recal {
            if let Some(t) = self.wakeup.take() {""", """        if is_recal && false {
            if let Some(t) = self.wakeup.take() {""", "the timer thread is not woken for a new earliest timer")
m("C08-heap-order", "C08", "src/timeout_list.rs",
  """        other.time.cmp(&self.time)""", """        self.time.cmp(&other.time)""", "heap yields the latest interval list first")
# ---------------------------------------------------------------- C09
m("C09-sem-cancel-no-repost", "C09", "src/sync/semphore.rs",
  """                if cur.is_unparked() {
                    self.post();
                } else {""",
  """                if cur.is_unparked() {
                } else {""", "a permit handed to a cancelled/timed-out waiter is lost")
m("C09-poison-on-cancel", "C09", "src/sync/poison.rs",
  """            if !is_canceled {
                self.failed.store(1, Ordering::Relaxed);
            }""",
  """            let _ = is_canceled;
            self.failed.store(1, Ordering::Relaxed);""", "a cancel unwind poisons the lock")
m("C09-cancel-take-before-bit", "C09", "src/cancel.rs",
  """        self.state.fetch_or(1, Ordering::Release);

        if let Some(Ok(())) = self.io.cancel() {
            // successfully canceled
            return;
        }

        if let Some(co) = self.co.take() {""",
  """        if let Some(Ok(())) = self.io.cancel() {
            // successfully canceled
            self.state.fetch_or(1, Ordering::Release);
            return;
        }

        let co = self.co.take();
        self.state.fetch_or(1, Ordering::Release);
        if let Some(co) = co {""", "a target registering between the take and the bit is never stopped")
# ---------------------------------------------------------------- C10
m("C10-post-le", "C10", "src/sync/semphore.rs",
  """        if cnt < 0 {
            self.wakeup_one();
        }""",
  """        if cnt <= 0 && !self.to_wake.is_empty() {
            self.wakeup_one();
        }""", "a waiter is woken although the permit stays available: permit duplicated")
m("C10-timeout-no-recheck", "C10", "src/sync/semphore.rs",
  """                    // re-check unpark status
                    if cur.is_unparked() && cur.take_release() {
                        self.post();
                    }""",
  """                    // re-check unpark status""", "post racing with a timeout is lost")
m("C10-fire-wake-before-store", "C10", "src/sync/sync_flag.rs",
  """        self.cnt.store(isize::MAX, Ordering::SeqCst);

        // try to wakeup all waiters
        self.wakeup_all();""",
  """        // try to wakeup all waiters
        self.wakeup_all();
        self.cnt.store(isize::MAX, Ordering::SeqCst);""", "a waiter registering between the wake-up and the store sleeps forever")
# ---------------------------------------------------------------- C11
m("C11-unlock-before-push", "C11", "src/sync/condvar.rs",
  """        self.to_wake.push(cur.clone());

        // unlock the mutex to let other continue
        mutex::unlock_mutex(lock);""",
  """        // unlock the mutex to let other continue
        mutex::unlock_mutex(lock);
        self.to_wake.push(cur.clone());
""", "a notify between unlock and enqueue is lost")
m("C11-notify-no-forward", "C11", "src/sync/condvar.rs",
  """            w.unpark();
            if w.take_release() {
                self.notify_one();
            }""",
  """            w.unpark();""", "a notification given to a timed-out waiter is not passed on")
m("C11-barrier-no-reset", "C11", "src/sync/barrier.rs",
  """            lock.count = 0;
            lock.generation_id""",
  """            lock.generation_id""", "second generation releases early")
# ---------------------------------------------------------------- C12
m("C12-try-write-ignores-wouldblock", "C12", "src/sync/rwlock.rs",
  """        if let Err(TryLockError::WouldBlock) = self.try_lock() {
            return Err(TryLockError::WouldBlock);
        }
        Ok(RwLockWriteGuard::new(self)?)""",
  """        if let Err(TryLockError::WouldBlock) = self.try_lock() {
            if self.cnt.load(Ordering::SeqCst) > 1 {
                return Err(TryLockError::WouldBlock);
            }
        }
        Ok(RwLockWriteGuard::new(self)?)""", "try_write succeeds while a single holder is inside")
m("C12-read-count-after-unlock", "C12", "src/sync/rwlock.rs",
  """        *r -= 1;
        if *r == 0 {
            self.unlock();
        }
        drop(r);""",
  """        if *r == 1 {
            self.unlock();
        }
        *r -= 1;
        drop(r);""", "control: equivalent under the reader mutex (must NOT be reported)")
# ---------------------------------------------------------------- C13
m("C13-trigger-before-panic-data", "C13", "src/coroutine_impl.rs",
  """            // set the panic data
            if let Some(panic) = co.get_panic_data() {
                join.set_panic_data(panic);
            }
            // trigger the join here
            join.trigger();""",
  """            // trigger the join here
            join.trigger();
            // set the panic data
            if let Some(panic) = co.get_panic_data() {
                join.set_panic_data(panic);
            }""", "join() may return before the payload is stored: reports Cancel instead of the payload")
m("C13-guard-drop-skips-unlock-when-panicking", "C13", "src/sync/mutex.rs",
  """        self.__lock.poison.done(&self.__poison);
        self.__lock.unlock();""",
  """        self.__lock.poison.done(&self.__poison);
        if !std::thread::panicking() || crate::coroutine_impl::is_coroutine() && crate::coroutine_impl::current_cancel_data().is_canceled() {
            self.__lock.unlock();
        }""", "a guard dropped by a panic poisons but does not release")
# ---------------------------------------------------------------- C14
m("C14-scope-drop-skip-when-panicking", "C14", "src/scoped.rs",
  """impl Drop for Scope<'_> {
    fn drop(&mut self) {
        self.drop_all()
    }
}""",
  """impl Drop for Scope<'_> {
    fn drop(&mut self) {
        if !thread::panicking() {
            self.drop_all()
        }
    }
}""", "an owner that panics leaves the scope with children running")
# ---------------------------------------------------------------- C15
m("C15-check-cancel-keeps-para", "C15", "src/yield_now.rs",
  """    if unlikely(cancel.is_canceled()) {
        co_set_para(std::io::Error::other("Canceled"));
        return resource.yield_back(cancel);
    }""",
  """    if unlikely(cancel.is_canceled()) {
        co_set_para(std::io::Error::other("Canceled"));
        if !std::thread::panicking() {
            return resource.yield_back(cancel);
        }
        return;
    }""", "a stale Canceled result can survive into the next occupant of the stack")
m("C15-sleep-keeps-para", "C15", "src/sleep.rs",
  """    yield_with(&sleeper);
    // consume the timeout error
    get_co_para();""",
  """    yield_with(&sleeper);""", "the TimedOut result of a sleep is seen by the next blocking call")
# ---------------------------------------------------------------- C16
m("C16-poll-no-repop", "C16", "src/cqueue.rs",
  """            match self.ev_queue.pop() {
                None => {
                    cur.park(timeout).ok();
                }
                Some(mut ev) => {
                    self.to_wake.take();
                    run_ev!(ev);
                }
            }""",
  """            cur.park(timeout).ok();""", "an event pushed before the poller registered is missed")
m("C16-sender-wake-before-push", "C16", "src/cqueue.rs",
  """        self.cqueue.ev_queue.push(Event {
            id: self.id,
            token: self.token,
            extra: self.extra.load(Ordering::Relaxed),
            kind: EventKind::Normal,
            co: Some(co),
        });
        if let Some(w) = to_wake.take() {
            w.unpark();
        }""",
  """        let w = to_wake.take();
        self.cqueue.ev_queue.push(Event {
            id: self.id,
            token: self.token,
            extra: self.extra.load(Ordering::Relaxed),
            kind: EventKind::Normal,
            co: Some(co),
        });
        if let Some(w) = w {
            w.unpark();
        }""", "poller registering between take and push sleeps with an event queued")
# ---------------------------------------------------------------- C17 / C18
m("C17-read-subscribe-no-flag-recheck", "C17", "src/io/sys/unix/net/socket_read.rs",
  """        if io_data.io_flag.load(Ordering::Acquire) != 0 {
            #[allow(clippy::needless_return)]
            return io_data.fast_schedule();
        }""",
  """        if false && io_data.io_flag.load(Ordering::Acquire) != 0 {
            #[allow(clippy::needless_return)]
            return io_data.fast_schedule();
        }""", "a readiness edge between the failed read and the registration is missed")
m("C17-selector-take-before-flag", "C17", "src/io/sys/unix/epoll.rs",
  """            data.io_flag.fetch_or(events, Ordering::Release);

            // first check the atomic co, this may be grab by the worker first
            let co = match data.co.take() {
                Some(co) => co,
                None => continue,
            };""",
  """            // first check the atomic co, this may be grab by the worker first
            let co = match data.co.take() {
                Some(co) => co,
                None => {
                    continue;
                }
            };
            data.io_flag.fetch_or(events, Ordering::Release);""", "edge consumed with no coroutine registered and no flag set: reader sleeps with data in the kernel")
m("C18-selector-keeps-timer", "C18", "src/io/sys/unix/epoll.rs",
  """            #[cfg(feature = "io_timeout")]
            data.timer.borrow_mut().take().map(|h| {
                unsafe {
                    // tell the timer handler not to cancel the io
                    // it's not always true that you can really remove the timer entry
                    h.with_mut_data(|value| value.data.event_data = std::ptr::null_mut());
                }
                h.remove()
            });

            #[cfg(feature = "work_steal")]
            scheduler.schedule_with_id(co, id);""",
  """            #[cfg(feature = "work_steal")]
            scheduler.schedule_with_id(co, id);""", "the timer of a completed read stays armed and fails the next read early")
# ---------------------------------------------------------------- C19
m("C19-remove-last", "C19", "may_queue/src/mpsc_list_v1.rs",
  """            if !next.is_null() {
                // clear the link bit""",
  """            if !next.is_null() || std::ptr::eq(node.prev, std::ptr::null_mut()) {
                // clear the link bit""", "control: never true here (prev null returns earlier) - must NOT be reported")
m("C19-pop-if-clear-before-test", "C19", "may_queue/src/mpsc_list_v1.rs",
  """            let v = (*next).value.as_ref().unwrap();
            if !f(v) {
                // no pop
                return None;
            }

            // clear the link bit
            assert!((*tail).refs.load(Ordering::Acquire) & REF_COUNT_MASK != 0);
            (*tail).refs.fetch_and(REF_COUNT_MASK, Ordering::AcqRel);""",
  """            // clear the link bit
            assert!((*tail).refs.load(Ordering::Acquire) & REF_COUNT_MASK != 0);
            (*tail).refs.fetch_and(REF_COUNT_MASK, Ordering::AcqRel);

            let v = (*next).value.as_ref().unwrap();
            if !f(v) {
                // no pop
                return None;
            }""", "control: the link bit of the stub is cleared one declined pop_if earlier; remove() returns None for the stub either way (prev is null), only Entry::is_link() of an already consumed entry differs, which C19 does not speak about (must NOT be reported)")
m("C19-push-link-before-prev", "C19", "may_queue/src/mpsc_list_v1.rs",
  """            (*node).prev = prev;
            (*prev).next.store(node, Ordering::Release);""",
  """            (*prev).next.store(node, Ordering::Release);
            (*node).prev = prev;""", "consumer sees the node before its prev is set: remove() declines forever / pop nulls prev then push overwrites it")

def gen():
    out = os.path.join(os.path.dirname(os.path.abspath(__file__)), 'mutants')
    os.makedirs(out, exist_ok=True)
    tmp = tempfile.mkdtemp(prefix='mutgen')
    try:
        subprocess.check_call(['git', '-C', '/repo', 'worktree', 'add', '-q', '--detach', tmp + '/wt', 'HEAD'])
        wt = tmp + '/wt'
        for (id, prop, file, old, new, note) in M:
            p = os.path.join(wt, file)
            s = open(p).read()
            if s.count(old) != 1:
                print('SKIP', id, 'old text occurs', s.count(old), 'times'); continue
            open(p, 'w').write(s.replace(old, new))
            d = subprocess.check_output(['git', '-C', wt, 'diff']).decode()
            open(os.path.join(out, id + '.diff'), 'w').write(d)
            subprocess.check_call(['git', '-C', wt, 'checkout', '-q', '--', '.'])
        print('generated', len(M))
    finally:
        subprocess.call(['git', '-C', '/repo', 'worktree', 'remove', '--force', tmp + '/wt'])
        shutil.rmtree(tmp, ignore_errors=True)

if __name__ == '__main__':
    if sys.argv[1:] == ['gen']:
        gen()
    else:
        for (id, prop, file, old, new, note) in M:
            print(f"{id:<45} {prop} {file}: {note}")
