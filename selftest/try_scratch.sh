#!/bin/bash
# usage: selftest/try_scratch.sh <patch> <PROP> [tier]
# like try.sh but entirely on scratch copies (worktree of /repo HEAD + copy of the harness with its own target dir)
# (FEATURES=--no-default-features builds the runtime without work_steal) under /tmp/mayverif-try, so that /repo and /verif/target-hooks stay untouched. Remove the directory when done:
#   git -C /repo worktree remove --force /tmp/mayverif-try/wt; rm -rf /tmp/mayverif-try
P="$(realpath "$1")"; ID="$2"; TIER="${3:-quick}"; S=${TRY_DIR:-/tmp/mayverif-try}
export CARGO_NET_OFFLINE=true
if [ ! -d "$S/wt" ]; then mkdir -p "$S/out"; git -C /repo worktree prune; git -C /repo worktree add -q --detach "$S/wt" HEAD || exit 2; fi
git -C "$S/wt" reset -q --hard 2>/dev/null; git -C "$S/wt" checkout -q --detach "$(git -C /repo rev-parse HEAD)"; git -C "$S/wt" checkout -q -- .
rm -rf "$S/harness"; cp -r "${HARNESS_SRC:-/verif/harness}" "$S/harness"
sed -i "s|path = \"/repo\"|path = \"$S/wt\"|" "$S/harness/Cargo.toml"
grep -q "$S/wt" "$S/harness/Cargo.toml" || { echo "harness copy still points at /repo"; exit 2; }
sed -i "s|target-dir = \"/verif/target-hooks\"|target-dir = \"$S/target-hooks\"|" "$S/harness/.cargo/config.toml"
git -C "$S/wt" apply --3way "$P" 2>/dev/null || git -C "$S/wt" apply "$P" || { echo "patch does not apply"; exit 3; }
(cd "$S/harness" && cargo build --offline $FEATURES > "$S/out/build.log" 2>&1) || { echo "harness build failed"; tail -20 "$S/out/build.log"; exit 2; }
MAYVERIF_OUT="$S/out" MAYVERIF_TMP="$S/out" "$S/target-hooks/debug/mayverif" check "$ID" --tier "$TIER" > "$S/out/check.out" 2> "$S/out/check.err"; RC=$?
git -C "$S/wt" reset -q --hard
grep -E "^(VIOLATION|KNOWN-FINDING|MACHINERY|C[0-9]+ )" "$S/out/check.out" | cut -c1-200 | head -6
grep -E "^--- " "$S/out/check.err" | awk '{print $2, $3}' | sort | uniq -c | sort -rn | head -5
grep -E "^MACHINERY" "$S/out/check.err" | cut -c1-300 | head -3
echo "exit=$RC"
