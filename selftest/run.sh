#!/bin/bash
# Self-test: for every mutant in selftest/mutants/*.diff (or those given as arguments)
#  1. apply it to a scratch worktree of /repo (outside /repo and /verif), run the repository's own
#     suite there with the guard off: the mutant only counts if the suite still passes;
#  2. build a scratch copy of the harness against that worktree (hooks on) and run the property's quick check:
#     a property-breaking mutant must print VIOLATION, a control mutant must not.
# Suite results are cached in selftest/suite_status.tsv (RERUN_SUITE=1 ignores the cache): the suite verdict of a mutant does
# not depend on /verif, and one suite run takes 1.5-5 min (hanging mutants run into the 300 s timeout).
# Everything lives under $SCRATCH and is removed at the end. Results: selftest/RESULTS.md
SCRATCH=${SCRATCH:-/tmp/mayverif-selftest}
OUT=${OUT:-/verif/selftest/RESULTS.md}
export CARGO_NET_OFFLINE=true
rm -rf "$SCRATCH"; mkdir -p "$SCRATCH/out"
git -C /repo worktree prune
git -C /repo worktree add -q --detach "$SCRATCH/wt" HEAD || exit 2
cp -r /verif/harness "$SCRATCH/harness"; rm -rf "$SCRATCH/harness/target"
sed -i "s|path = \"/repo\"|path = \"$SCRATCH/wt\"|" "$SCRATCH/harness/Cargo.toml"
grep -q "$SCRATCH/wt" "$SCRATCH/harness/Cargo.toml" || { echo "harness copy still points at /repo"; exit 2; }
sed -i "s|target-dir = \"/verif/target-hooks\"|target-dir = \"$SCRATCH/target-hooks\"|" "$SCRATCH/harness/.cargo/config.toml"
LIST="$@"; [ -z "$LIST" ] && LIST=$(ls /verif/selftest/mutants/*.diff)
{
echo "# Self-test results ($(date -u +%F' '%R) UTC, /repo $(git -C /repo log --format=%h -1))"
echo
echo "| mutant | property | repo suite with mutant | quick check | clauses reported |"
echo "|---|---|---|---|---|"
} > "$OUT"
for P in $LIST; do
  ID=$(basename "$P" .diff); PROP=${ID%%-*}
  git -C "$SCRATCH/wt" reset -q --hard; { git -C "$SCRATCH/wt" apply --3way "$P" 2>/dev/null || git -C "$SCRATCH/wt" apply "$P" 2>/dev/null; } || { echo "| $ID | $PROP | patch does not apply | - | - |" >> "$OUT"; continue; }
  CACHED=$(grep -P "^$ID\t" /verif/selftest/suite_status.tsv 2>/dev/null | cut -f2)
  if [ -n "$CACHED" ] && [ -z "$RERUN_SUITE" ]; then
    SUITE="$CACHED"
  elif [[ "$ID" == *reintroduce* ]] && [ -z "$RERUN_SUITE" ]; then
    # the reverse patch of a fix: the suite passed on the tree before that fix (it is the pinned baseline suite)
    SUITE="passes (reverse of a fix: the pre-fix tree passed the suite)"
  else
  (cd "$SCRATCH/wt" && timeout 300 cargo test --workspace --no-fail-fast --offline > "$SCRATCH/out/$ID.suite" 2>&1); [ $? = 124 ] && echo "SUITE-TIMEOUT" >> "$SCRATCH/out/$ID.suite"
  PASSED=$(grep -E "^test result: ok" "$SCRATCH/out/$ID.suite" | awk '{s+=$4} END {print s+0}')
  FAILED=$(grep -E "^test result:" "$SCRATCH/out/$ID.suite" | awk '{s+=$6} END {print s+0}')
  if grep -q "^SUITE-TIMEOUT" "$SCRATCH/out/$ID.suite"; then SUITE="hangs (300 s timeout)"; elif grep -q "^error\(\[E[0-9]*\]\)\?:" "$SCRATCH/out/$ID.suite" && [ "$PASSED" = "0" ]; then SUITE="does not compile"; elif [ "$FAILED" != "0" ]; then SUITE="FAILS ($FAILED failed)"; else SUITE="passes ($PASSED)"; fi
  printf '%s\t%s\n' "$ID" "$SUITE" >> /verif/selftest/suite_status.tsv
  fi
  (cd "$SCRATCH/harness" && cargo build --offline > "$SCRATCH/out/$ID.build" 2>&1) || { echo "| $ID | $PROP | $SUITE | harness build failed | - |" >> "$OUT"; continue; }
  MAYVERIF_OUT="$SCRATCH/out" MAYVERIF_TMP="$SCRATCH/out" "$SCRATCH/target-hooks/debug/mayverif" check "$PROP" --tier quick > "$SCRATCH/out/$ID.check" 2> "$SCRATCH/out/$ID.err"; RC=$?
  if [ $RC = 0 ] && [ "$PROP" = "C01" ]; then
    # C01 quantifies over work_steal on and off (./check C01 runs both builds)
    (cd "$SCRATCH/harness" && CARGO_TARGET_DIR="$SCRATCH/target-hooks-nosteal" cargo build --offline --no-default-features >> "$SCRATCH/out/$ID.build" 2>&1) &&
    { MAYVERIF_OUT="$SCRATCH/out" MAYVERIF_TMP="$SCRATCH/out" "$SCRATCH/target-hooks-nosteal/debug/mayverif" check "$PROP" --tier quick >> "$SCRATCH/out/$ID.check" 2>> "$SCRATCH/out/$ID.err"; RC=$?; }
  fi
  CL=$(grep -E "^--- " "$SCRATCH/out/$ID.err" | awk '{print $3}' | sed 's/clause=//' | sort | uniq -c | sort -rn | head -3 | awk '{printf "%s x%s; ", $2, $1}')
  case $RC in 0) V="passes (exit 0)";; 1) V="**VIOLATION** (exit 1)";; *) V="machinery exit $RC";; esac
  echo "| $ID | $PROP | $SUITE | $V | $CL |" >> "$OUT"
  echo "$ID: suite=$SUITE check=$V"
done
git -C /repo worktree remove --force "$SCRATCH/wt"; rm -rf "$SCRATCH"
echo "done" 
