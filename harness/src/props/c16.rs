//! C16 - cqueue consumes each event once; select! returns a fully run arm
use crate::engine::Engine;
use crate::explore::Scenario;
use crate::util::*;
use may::coroutine;
use may::cqueue::{self, PollError};
use may::sync::mpsc;
use std::sync::atomic::{AtomicI32, AtomicU32, Ordering};
use std::sync::Arc;
use std::time::Duration;

#[allow(clippy::declare_interior_mutable_const)]
const Z: AtomicU32 = AtomicU32::new(0);
static TOP: [AtomicU32; 4] = [Z; 4];
static BOTTOM: [AtomicU32; 4] = [Z; 4];
static ENDED: [AtomicU32; 4] = [Z; 4];
static ACTIVE: AtomicI32 = AtomicI32::new(0);
const MS: u64 = 1_000_000;

struct ActiveGuard(usize);
impl Drop for ActiveGuard {
    fn drop(&mut self) {
        ENDED[self.0].fetch_add(1, Ordering::SeqCst);
        ACTIVE.fetch_sub(1, Ordering::SeqCst);
    }
}

#[derive(Clone, Copy, PartialEq, Debug)]
pub enum Top {
    Ready,
    Yield,
    Sleep,
    Recv,
    Panic,
}

fn top_half(t: Top, rx: Option<&mpsc::Receiver<u32>>) -> bool {
    match t {
        Top::Ready => true,
        Top::Yield => {
            coroutine::yield_now();
            true
        }
        Top::Sleep => {
            coroutine::sleep(Duration::from_millis(1));
            true
        }
        Top::Recv => rx.unwrap().recv().is_ok(),
        Top::Panic => {
            coroutine::yield_now();
            std::panic::panic_any(66u32)
        }
    }
}

/// arms with the given top halves, `events` events each (1 = oneshot); the poller consumes with poll(timeout);
/// `remove0`: the selector of arm 0 is removed right after it was added
fn poll_run(e: &'static Engine, workers: usize, poller_co: bool, tops: &'static [Top], events: u32, timeout_ms: u64, remove0: bool) {
    rt_init(workers);
    let (tx, rx) = mpsc::channel::<u32>();
    let has_recv = tops.contains(&Top::Recv);
    e.begin();
    let body = move || -> String {
        let mut consumed = [0u32; 4];
        let mut out = String::new();
        let rx = rx;
        let r = std::panic::catch_unwind(std::panic::AssertUnwindSafe(|| {
            cqueue::scope(|cq| {
                for (i, t) in tops.iter().enumerate() {
                    let rxr = &rx;
                    let t = *t;
                    let sel = go!(cq, i, move |es| {
                        ACTIVE.fetch_add(1, Ordering::SeqCst);
                        let _g = ActiveGuard(i);
                        for _ in 0..events {
                            if !top_half(t, Some(rxr)) {
                                break;
                            }
                            TOP[i].fetch_add(1, Ordering::SeqCst);
                            es.send(es.get_token());
                            BOTTOM[i].fetch_add(1, Ordering::SeqCst);
                        }
                    });
                    if remove0 && i == 0 {
                        sel.remove();
                    }
                }
                loop {
                    let t0 = may::verif::now();
                    let r = cq.poll(if timeout_ms == 0 { None } else { Some(Duration::from_millis(timeout_ms)) });
                    match r {
                        Ok(ev) => {
                            let t = ev.token;
                            consumed[t] += 1;
                            let (top, bottom) = (TOP[t].load(Ordering::SeqCst), BOTTOM[t].load(Ordering::SeqCst));
                            if bottom != consumed[t] {
                                e.fail("bottom_once_per_event", &format!("poll returned event {} of arm {} but its bottom half ran {} times", consumed[t], t, bottom));
                            }
                            if top < bottom {
                                e.fail("bottom_before_top", &format!("arm {}: bottom ran {} times, top only {}", t, bottom, top));
                            }
                            out.push_str(&format!("{}", t));
                        }
                        Err(PollError::Finished) => {
                            for i in 0..tops.len() {
                                if ENDED[i].load(Ordering::SeqCst) != 1 {
                                    e.fail("finished_early", &format!("poll reported Finished but arm {} has not ended", i));
                                }
                            }
                            out.push('F');
                            break;
                        }
                        Err(PollError::Timeout) => {
                            let dt = may::verif::now() - t0;
                            if timeout_ms == 0 || dt < timeout_ms * MS {
                                e.fail("timeout_early", &format!("poll({} ms) reported Timeout after {} ns", timeout_ms, dt));
                            }
                            out.push('T');
                        }
                    }
                }
            });
        }));
        match r {
            Ok(()) => {}
            Err(p) => {
                if p.downcast_ref::<u32>() == Some(&66) && tops.contains(&Top::Panic) {
                    out.push('P');
                } else {
                    e.fail("unexpected_panic", &format!("the poller saw an unexpected panic: {:?}", e.panics().last()));
                }
            }
        }
        out
    };
    let h = if poller_co { Some(go!(body)) } else { None };
    let mut out = String::new();
    // feed the receiving arms from the main thread
    if has_recv {
        for k in 0..events {
            let _ = tx.send(k);
        }
    }
    match h {
        Some(h) => match h.join() {
            Ok(o) => out = o,
            Err(_) => e.fail("unexpected_panic", "the polling coroutine panicked"),
        },
        None => unreachable!(),
    }
    drop(tx);
    // the scope is left: no arm is executing any more and nothing changes afterwards
    let snap: Vec<(u32, u32)> = (0..tops.len()).map(|i| (TOP[i].load(Ordering::SeqCst), BOTTOM[i].load(Ordering::SeqCst))).collect();
    if ACTIVE.load(Ordering::SeqCst) != 0 {
        e.fail("arm_still_running", "the cqueue scope returned while a select coroutine was still executing");
    }
    e.quiesce();
    for i in 0..tops.len() {
        if (TOP[i].load(Ordering::SeqCst), BOTTOM[i].load(Ordering::SeqCst)) != snap[i] {
            e.fail("arm_still_running", &format!("arm {} ran after the cqueue scope had returned", i));
        }
        let (t, b) = snap[i];
        if b > t || t > events {
            e.fail("bottom_without_top", &format!("arm {}: top ran {} times, bottom {} times ({} events)", i, t, b, events));
        }
        if !(remove0 && i == 0) && tops[i] != Top::Panic && !tops.contains(&Top::Panic) && (t != events || b != events) {
            e.fail("event_lost", &format!("arm {}: top {} bottom {} but {} events were due", i, t, b, events));
        }
    }
    e.note(&out);
}

/// the same with the polling thread being the main thread (thread poller)
fn poll_run_thread(e: &'static Engine, workers: usize, tops: &'static [Top], events: u32) {
    rt_init(workers);
    e.begin();
    let mut consumed = [0u32; 4];
    let mut out = String::new();
    cqueue::scope(|cq| {
        for (i, t) in tops.iter().enumerate() {
            let t = *t;
            go!(cq, i, move |es| {
                ACTIVE.fetch_add(1, Ordering::SeqCst);
                let _g = ActiveGuard(i);
                for _ in 0..events {
                    top_half(t, None);
                    TOP[i].fetch_add(1, Ordering::SeqCst);
                    es.send(es.get_token());
                    BOTTOM[i].fetch_add(1, Ordering::SeqCst);
                }
            });
        }
        loop {
            match cq.poll(None) {
                Ok(ev) => {
                    let t = ev.token;
                    consumed[t] += 1;
                    if BOTTOM[t].load(Ordering::SeqCst) != consumed[t] {
                        e.fail("bottom_once_per_event", &format!("poll returned event {} of arm {} but its bottom half ran {} times", consumed[t], t, BOTTOM[t].load(Ordering::SeqCst)));
                    }
                    out.push_str(&format!("{}", t));
                }
                Err(PollError::Finished) => {
                    for i in 0..tops.len() {
                        if ENDED[i].load(Ordering::SeqCst) != 1 {
                            e.fail("finished_early", &format!("poll reported Finished but arm {} has not ended", i));
                        }
                    }
                    break;
                }
                Err(PollError::Timeout) => e.fail("timeout_early", "poll(None) reported Timeout"),
            }
        }
    });
    for i in 0..tops.len() {
        let (t, b) = (TOP[i].load(Ordering::SeqCst), BOTTOM[i].load(Ordering::SeqCst));
        if t != events || b != events || consumed[i] != events {
            e.fail("event_lost", &format!("arm {}: top {} bottom {} consumed {} but {} events were due", i, t, b, consumed[i], events));
        }
    }
    e.note(&out);
}

/// select! over a channel receive and a sleep / a yield
fn select_run(e: &'static Engine, workers: usize, second: Top, send_first: bool) {
    rt_init(workers);
    let (tx, rx) = mpsc::channel::<u32>();
    e.begin();
    if send_first {
        tx.send(5).unwrap();
    }
    let h = go!(move || {
        let t = select!(
            v = {
                let v = rx.recv();
                TOP[0].fetch_add(1, Ordering::SeqCst);
                v
            } => {
                let _ = v;
                BOTTOM[0].fetch_add(1, Ordering::SeqCst);
            },
            _ = {
                top_half(second, None);
                TOP[1].fetch_add(1, Ordering::SeqCst);
            } => {
                BOTTOM[1].fetch_add(1, Ordering::SeqCst);
            }
        );
        let snap = [(TOP[0].load(Ordering::SeqCst), BOTTOM[0].load(Ordering::SeqCst)), (TOP[1].load(Ordering::SeqCst), BOTTOM[1].load(Ordering::SeqCst))];
        (t, snap)
    });
    if !send_first {
        let _ = tx.send(5);
    }
    let (t, snap) = match h.join() {
        Ok(r) => r,
        Err(_) => e.fail("unexpected_panic", "the selecting coroutine panicked"),
    };
    if snap[t] .0 != 1 || snap[t].1 != 1 {
        e.fail("select_token", &format!("select! returned token {} whose top ran {} and bottom {} times", t, snap[t].0, snap[t].1));
    }
    let o = 1 - t;
    if snap[o].1 > snap[o].0 {
        e.fail("bottom_before_top", &format!("losing arm {}: bottom {} top {}", o, snap[o].1, snap[o].0));
    }
    e.quiesce();
    for i in 0..2 {
        if (TOP[i].load(Ordering::SeqCst), BOTTOM[i].load(Ordering::SeqCst)) != snap[i] {
            e.fail("arm_still_running", &format!("arm {} ran after select! had returned", i));
        }
    }
    e.note(&format!("token={} other_bottom={}", t, snap[o].1));
}

pub fn build(quick: bool) -> Vec<Scenario> {
    let mut v = vec![];
    for w in [1usize, 2] {
        v.push(Scenario::new("C16", "poll", format!("poll.co.ready_yield.w{}", w), Arc::new(move |e| poll_run(e, w, true, &[Top::Ready, Top::Yield], 1, 0, false))));
        v.push(Scenario::new("C16", "poll", format!("poll.co.recv_yield.w{}", w), Arc::new(move |e| poll_run(e, w, true, &[Top::Recv, Top::Yield], 1, 0, false))));
        v.push(Scenario::new("C16", "poll", format!("poll.co.sleep_ready.t1ms.w{}", w), Arc::new(move |e| poll_run(e, w, true, &[Top::Sleep, Top::Ready], 1, 1, false))).t2());
        v.push(Scenario::new("C16", "poll", format!("poll.co.yield_yield.x2.w{}", w), Arc::new(move |e| poll_run(e, w, true, &[Top::Yield, Top::Yield], 2, 0, false))));
        v.push(Scenario::new("C16", "poll", format!("poll.co.remove0.yield_yield.w{}", w), Arc::new(move |e| poll_run(e, w, true, &[Top::Yield, Top::Yield], 1, 0, true))));
        v.push(Scenario::new("C16", "poll", format!("poll.co.panic_yield.w{}", w), Arc::new(move |e| poll_run(e, w, true, &[Top::Panic, Top::Yield], 1, 0, false))));
        v.push(Scenario::new("C16", "poll", format!("poll.thread.ready_yield.w{}", w), Arc::new(move |e| poll_run_thread(e, w, &[Top::Ready, Top::Yield], 1))));
        v.push(Scenario::new("C16", "poll", format!("poll.thread.yield_yield.x2.w{}", w), Arc::new(move |e| poll_run_thread(e, w, &[Top::Yield, Top::Yield], 2))));
        v.push(Scenario::new("C16", "select", format!("select.recv_vs_yield.w{}", w), Arc::new(move |e| select_run(e, w, Top::Yield, false))));
        v.push(Scenario::new("C16", "select", format!("select.recv_vs_sleep.sent_first.w{}", w), Arc::new(move |e| select_run(e, w, Top::Sleep, true))).t2());
        v.push(Scenario::new("C16", "select", format!("select.recv_vs_ready.w{}", w), Arc::new(move |e| select_run(e, w, Top::Ready, false))));
    }
    if !quick {
        v.push(Scenario::new("C16", "poll", "poll.co.recv_yield_sleep.w2", Arc::new(move |e| poll_run(e, 2, true, &[Top::Recv, Top::Yield, Top::Sleep], 1, 0, false))));
    }
    v.into_iter().map(|s| s.tier(quick).vt_horizon(100_000_000).horizon(6_000)).collect()
}
