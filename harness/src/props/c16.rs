//! C16 - cqueue consumes each event once; select! returns a fully run arm
use crate::engine::Engine;
use crate::explore::Scenario;
use crate::util::*;
use may::coroutine;
use may::cqueue::{self, PollError};
use may::sync::mpsc;
use std::sync::atomic::{AtomicI32, AtomicU32, Ordering};
use std::sync::Arc;
use std::time::Duration;

#[allow(clippy::declare_interior_mutable_const)]
const Z: AtomicU32 = AtomicU32::new(0);
static TOP: [AtomicU32; 4] = [Z; 4];
static BOTTOM: [AtomicU32; 4] = [Z; 4];
static ENDED: [AtomicU32; 4] = [Z; 4];
static ACTIVE: AtomicI32 = AtomicI32::new(0);
/// set by the poller while it is inside poll() or inside the final drain of the cqueue
static IN_POLL: std::sync::atomic::AtomicBool = std::sync::atomic::AtomicBool::new(false);
/// bottom halves that started while the poller was not consuming an event
static OUTSIDE: [AtomicU32; 4] = [Z; 4];

/// set at the end of a Busy top half, i.e. right before its send
static BUSY_DONE: std::sync::atomic::AtomicBool = std::sync::atomic::AtomicBool::new(false);

/// first statement of every bottom half
fn bottom_starts(i: usize) {
    if !IN_POLL.load(Ordering::SeqCst) {
        OUTSIDE[i].fetch_add(1, Ordering::SeqCst);
    }
    BOTTOM[i].fetch_add(1, Ordering::SeqCst);
}

fn check_outside(e: &Engine, n: usize) {
    for i in 0..n {
        let o = OUTSIDE[i].load(Ordering::SeqCst);
        if o != 0 {
            e.fail("bottom_without_event", &format!("arm {}: {} bottom half run(s) started while the poller was neither in poll() nor draining: no event of it was being consumed", i, o));
        }
    }
}
const MS: u64 = 1_000_000;

struct ActiveGuard(usize);
impl Drop for ActiveGuard {
    fn drop(&mut self) {
        ENDED[self.0].fetch_add(1, Ordering::SeqCst);
        ACTIVE.fetch_sub(1, Ordering::SeqCst);
    }
}

/// owned by the select coroutine's closure (captured by move): dropped after the arm's EventSender, i.e. after the
/// arm was counted out - the coroutine has only *ended* when this (yielding) destructor is through
static LATE_ENDED: [AtomicU32; 4] = [Z; 4];
struct LateEnd(usize);
impl Drop for LateEnd {
    fn drop(&mut self) {
        // (the yield is a cancellation point: for a removed arm it may end in the Cancel panic)
        struct Count(usize);
        impl Drop for Count {
            fn drop(&mut self) {
                LATE_ENDED[self.0].fetch_add(1, Ordering::SeqCst);
            }
        }
        let _c = Count(self.0);
        coroutine::yield_now();
    }
}

#[derive(Clone, Copy, PartialEq, Debug)]
pub enum Top {
    Ready,
    Yield,
    Sleep,
    Recv,
    Panic,
    /// runs for a while without reaching a cancellation point (non-blocking operations of another primitive)
    Busy,
    /// never produces an event: blocked in a receive on a channel nobody sends on, until it is cancelled
    Idle,
    /// never produces an event: `loop { coroutine::park() }` until it is cancelled
    IdlePark,
}

fn top_half(t: Top, rx: Option<&mpsc::Receiver<u32>>) -> bool {
    match t {
        Top::Ready => true,
        Top::Yield => {
            coroutine::yield_now();
            true
        }
        Top::Sleep => {
            coroutine::sleep(Duration::from_millis(1));
            true
        }
        Top::Recv => rx.unwrap().recv().is_ok(),
        Top::Panic => {
            coroutine::yield_now();
            std::panic::panic_any(66u32)
        }
        Top::Idle => rx.unwrap().recv().is_ok(),
        Top::IdlePark => loop {
            coroutine::park();
        },
        Top::Busy => {
            let s = may::sync::Semphore::new(0);
            s.post();
            s.post();
            let r = s.try_wait();
            BUSY_DONE.store(true, Ordering::SeqCst);
            r
        }
    }
}

/// arms with the given top halves, `events` events each (1 = oneshot); the poller consumes with poll(timeout);
/// `remove0`: the selector of arm 0 is removed right after it was added
fn poll_run(e: &'static Engine, workers: usize, poller_co: bool, tops: &'static [Top], events: u32, timeout_ms: u64, remove0: bool) {
    rt_init(workers);
    let (tx, rx) = mpsc::channel::<u32>();
    let has_recv = tops.contains(&Top::Recv);
    e.begin();
    let body = move || -> String {
        let mut consumed = [0u32; 4];
        let mut out = String::new();
        let rx = rx;
        let r = std::panic::catch_unwind(std::panic::AssertUnwindSafe(|| {
            cqueue::scope(|cq| {
                for (i, t) in tops.iter().enumerate() {
                    let rxr = &rx;
                    let t = *t;
                    let late = LateEnd(i);
                    let sel = go!(cq, i, move |es| {
                        let _late = &late;
                        ACTIVE.fetch_add(1, Ordering::SeqCst);
                        let _g = ActiveGuard(i);
                        for _ in 0..events {
                            if !top_half(t, Some(rxr)) {
                                break;
                            }
                            TOP[i].fetch_add(1, Ordering::SeqCst);
                            es.send(es.get_token());
                            bottom_starts(i);
                        }
                    });
                    if remove0 && i == 0 {
                        sel.remove();
                    }
                }
                loop {
                    let t0 = may::verif::now();
                    IN_POLL.store(true, Ordering::SeqCst);
                    let r = cq.poll(if timeout_ms == 0 { None } else { Some(Duration::from_millis(timeout_ms)) });
                    IN_POLL.store(false, Ordering::SeqCst);
                    match r {
                        Ok(ev) => {
                            let t = ev.token;
                            consumed[t] += 1;
                            let (top, bottom) = (TOP[t].load(Ordering::SeqCst), BOTTOM[t].load(Ordering::SeqCst));
                            if bottom != consumed[t] {
                                e.fail("bottom_once_per_event", &format!("poll returned event {} of arm {} but its bottom half ran {} times", consumed[t], t, bottom));
                            }
                            if top < bottom {
                                e.fail("bottom_before_top", &format!("arm {}: bottom ran {} times, top only {}", t, bottom, top));
                            }
                            out.push_str(&format!("{}", t));
                        }
                        Err(PollError::Finished) => {
                            for i in 0..tops.len() {
                                if ENDED[i].load(Ordering::SeqCst) != 1 || LATE_ENDED[i].load(Ordering::SeqCst) != 1 {
                                    e.fail("finished_early", &format!("poll reported Finished but arm {} has not ended (body ended {}, captured state dropped {})", i, ENDED[i].load(Ordering::SeqCst), LATE_ENDED[i].load(Ordering::SeqCst)));
                                }
                            }
                            out.push('F');
                            break;
                        }
                        Err(PollError::Timeout) => {
                            let dt = may::verif::now() - t0;
                            if timeout_ms == 0 || dt < timeout_ms * MS {
                                e.fail("timeout_early", &format!("poll({} ms) reported Timeout after {} ns", timeout_ms, dt));
                            }
                            out.push('T');
                        }
                    }
                }
                // leaving the scope drains what is left
                IN_POLL.store(true, Ordering::SeqCst);
            });
        }));
        IN_POLL.store(false, Ordering::SeqCst);
        match r {
            Ok(()) => {
                if tops.contains(&Top::Panic) {
                    e.fail("panic_not_reraised", "an arm panicked but neither poll() nor leaving the scope re-raised the panic in the poller");
                }
            }
            Err(p) => {
                if p.downcast_ref::<u32>() == Some(&66) && tops.contains(&Top::Panic) {
                    out.push('P');
                } else {
                    e.fail("unexpected_panic", &format!("the poller saw an unexpected panic: {:?}", e.panics().last()));
                }
            }
        }
        out
    };
    let mut body = Some(body);
    let h = if poller_co { Some(go!(body.take().unwrap())) } else { None };
    let mut out = String::new();
    // feed the receiving arms from the main thread
    if has_recv {
        for k in 0..events {
            let _ = tx.send(k);
        }
    }
    match h {
        Some(h) => match h.join() {
            Ok(o) => out = o,
            Err(_) => e.fail("unexpected_panic", "the polling coroutine panicked"),
        },
        // a thread as the poller: the main thread itself
        None => out = (body.take().unwrap())(),
    }
    drop(tx);
    // the scope is left: no arm is executing any more and nothing changes afterwards
    let snap: Vec<(u32, u32)> = (0..tops.len()).map(|i| (TOP[i].load(Ordering::SeqCst), BOTTOM[i].load(Ordering::SeqCst))).collect();
    if ACTIVE.load(Ordering::SeqCst) != 0 || (0..tops.len()).any(|i| LATE_ENDED[i].load(Ordering::SeqCst) != 1) {
        e.fail("arm_still_running", "the cqueue scope returned while a select coroutine was still executing");
    }
    e.quiesce();
    check_outside(e, tops.len());
    for i in 0..tops.len() {
        if (TOP[i].load(Ordering::SeqCst), BOTTOM[i].load(Ordering::SeqCst)) != snap[i] {
            e.fail("arm_still_running", &format!("arm {} ran after the cqueue scope had returned", i));
        }
        let (t, b) = snap[i];
        if b > t || t > events {
            e.fail("bottom_without_top", &format!("arm {}: top ran {} times, bottom {} times ({} events)", i, t, b, events));
        }
        if !(remove0 && i == 0) && tops[i] != Top::Panic && !tops.contains(&Top::Panic) && (t != events || b != events) {
            e.fail("event_lost", &format!("arm {}: top {} bottom {} but {} events were due", i, t, b, events));
        }
    }
    e.note(&out);
}

/// the same with the polling thread being the main thread (thread poller)
/// `at_send`: the removal of arm 0 waits until that arm's (Busy) top half is over, so that it meets the arm's send
fn poll_run_thread(e: &'static Engine, workers: usize, tops: &'static [Top], events: u32, remove0: bool, at_send: bool) {
    rt_init(workers);
    e.begin();
    let mut consumed = [0u32; 4];
    let mut out = String::new();
    cqueue::scope(|cq| {
        for (i, t) in tops.iter().enumerate() {
            let t = *t;
            let late = LateEnd(i);
            let sel = go!(cq, i, move |es| {
                let _late = &late;
                ACTIVE.fetch_add(1, Ordering::SeqCst);
                let _g = ActiveGuard(i);
                for _ in 0..events {
                    top_half(t, None);
                    TOP[i].fetch_add(1, Ordering::SeqCst);
                    es.send(es.get_token());
                    bottom_starts(i);
                }
            });
            if remove0 && i == 0 {
                if at_send {
                    e.wait_flag(&BUSY_DONE);
                }
                sel.remove();
            }
        }
        loop {
            IN_POLL.store(true, Ordering::SeqCst);
            let r = cq.poll(None);
            IN_POLL.store(false, Ordering::SeqCst);
            match r {
                Ok(ev) => {
                    let t = ev.token;
                    consumed[t] += 1;
                    if BOTTOM[t].load(Ordering::SeqCst) != consumed[t] {
                        e.fail("bottom_once_per_event", &format!("poll returned event {} of arm {} but its bottom half ran {} times", consumed[t], t, BOTTOM[t].load(Ordering::SeqCst)));
                    }
                    out.push_str(&format!("{}", t));
                }
                Err(PollError::Finished) => {
                    for i in 0..tops.len() {
                        if ENDED[i].load(Ordering::SeqCst) != 1 || LATE_ENDED[i].load(Ordering::SeqCst) != 1 {
                            e.fail("finished_early", &format!("poll reported Finished but arm {} has not ended (body ended {}, captured state dropped {})", i, ENDED[i].load(Ordering::SeqCst), LATE_ENDED[i].load(Ordering::SeqCst)));
                        }
                    }
                    break;
                }
                Err(PollError::Timeout) => e.fail("timeout_early", "poll(None) reported Timeout"),
            }
        }
        IN_POLL.store(true, Ordering::SeqCst);
    });
    IN_POLL.store(false, Ordering::SeqCst);
    if (0..tops.len()).any(|i| LATE_ENDED[i].load(Ordering::SeqCst) != 1) {
        e.fail("arm_still_running", "the cqueue scope returned while a select coroutine was still executing");
    }
    e.quiesce();
    check_outside(e, tops.len());
    for i in 0..tops.len() {
        let (t, b) = (TOP[i].load(Ordering::SeqCst), BOTTOM[i].load(Ordering::SeqCst));
        if remove0 && i == 0 {
            if b > t || b > consumed[i] + 1 {
                e.fail("bottom_without_top", &format!("removed arm {}: top {} bottom {} consumed {}", i, t, b, consumed[i]));
            }
            continue;
        }
        if t != events || b != events || consumed[i] != events {
            e.fail("event_lost", &format!("arm {}: top {} bottom {} consumed {} but {} events were due", i, t, b, consumed[i], events));
        }
    }
    e.note(&out);
}

/// select! over a channel receive and a sleep / a yield
fn select_run(e: &'static Engine, workers: usize, second: Top, send_first: bool) {
    rt_init(workers);
    let (tx, rx) = mpsc::channel::<u32>();
    e.begin();
    if send_first {
        tx.send(5).unwrap();
    }
    let h = go!(move || {
        let t = select!(
            v = {
                let v = rx.recv();
                TOP[0].fetch_add(1, Ordering::SeqCst);
                v
            } => {
                let _ = v;
                BOTTOM[0].fetch_add(1, Ordering::SeqCst);
            },
            _ = {
                top_half(second, None);
                TOP[1].fetch_add(1, Ordering::SeqCst);
            } => {
                BOTTOM[1].fetch_add(1, Ordering::SeqCst);
            }
        );
        let snap = [(TOP[0].load(Ordering::SeqCst), BOTTOM[0].load(Ordering::SeqCst)), (TOP[1].load(Ordering::SeqCst), BOTTOM[1].load(Ordering::SeqCst))];
        (t, snap)
    });
    if !send_first {
        let _ = tx.send(5);
    }
    let (t, snap) = match h.join() {
        Ok(r) => r,
        Err(_) => e.fail("unexpected_panic", "the selecting coroutine panicked"),
    };
    if snap[t] .0 != 1 || snap[t].1 != 1 {
        e.fail("select_token", &format!("select! returned token {} whose top ran {} and bottom {} times", t, snap[t].0, snap[t].1));
    }
    let o = 1 - t;
    if snap[o].1 > snap[o].0 {
        e.fail("bottom_before_top", &format!("losing arm {}: bottom {} top {}", o, snap[o].1, snap[o].0));
    }
    e.quiesce();
    for i in 0..2 {
        if (TOP[i].load(Ordering::SeqCst), BOTTOM[i].load(Ordering::SeqCst)) != snap[i] {
            e.fail("arm_still_running", &format!("arm {} ran after select! had returned", i));
        }
    }
    e.note(&format!("token={} other_bottom={}", t, snap[o].1));
}

static LEAVING: std::sync::atomic::AtomicBool = std::sync::atomic::AtomicBool::new(false);
static LEFT_WITH_ARMS: std::sync::atomic::AtomicBool = std::sync::atomic::AtomicBool::new(false);

/// lives in the owner's frame, outside the cqueue scope: dropped when that frame is left, normally or by an unwind
struct FrameEnd;
impl Drop for FrameEnd {
    fn drop(&mut self) {
        if ACTIVE.load(Ordering::SeqCst) != 0 {
            LEFT_WITH_ARMS.store(true, Ordering::SeqCst);
        }
    }
}

/// the owner (a coroutine) is cancelled while it drains the cqueue at the end of the scope (cancellation is disabled there):
/// the scope is still only left when every arm has ended; `select`: the same with select!
fn drain_cancelled(e: &'static Engine, workers: usize, select: bool) {
    rt_init(workers);
    e.begin();
    let o = go!(move || {
        let _f = FrameEnd;
        if select {
            let _ = select!(
                _ = coroutine::yield_now() => {
                    LEAVING.store(true, Ordering::SeqCst);
                },
                _ = {
                    ACTIVE.fetch_add(1, Ordering::SeqCst);
                    let _g = ActiveGuard(1);
                    coroutine::sleep(Duration::from_millis(5));
                } => {}
            );
        } else {
            cqueue::scope(|cq| {
                go!(cq, 0, |es| {
                    ACTIVE.fetch_add(1, Ordering::SeqCst);
                    let _g = ActiveGuard(0);
                    es.send(0);
                });
                go!(cq, 1, |es| {
                    ACTIVE.fetch_add(1, Ordering::SeqCst);
                    let _g = ActiveGuard(1);
                    coroutine::sleep(Duration::from_millis(5));
                    es.send(0);
                });
                let _ = cq.poll(None);
                LEAVING.store(true, Ordering::SeqCst);
            });
        }
    });
    e.wait_flag(&LEAVING);
    unsafe { o.coroutine().cancel() };
    match o.join() {
        Ok(()) => {}
        Err(p) => {
            if p.downcast_ref::<generator::Error>().is_none() {
                e.fail("unexpected_panic", &format!("the owner ended with a panic that is not Cancel: {:?}", e.panics().last()));
            }
        }
    }
    if LEFT_WITH_ARMS.load(Ordering::SeqCst) {
        e.fail("arm_still_running", "the owner's frame was left while a select coroutine was still executing");
    }
    e.quiesce();
    e.note("ok");
}

/// the poller never polls: arm 0 panics at once, arm 1 is busy (sleeps 2 ms, then sends) when the poller, after a nap
/// of 1 ms, leaves the scope. The final drain must wait for arm 1 as well, and only then re-raise arm 0's panic - also
/// when the poller itself is unwinding from a panic of its own (`poller_panics`; then its own panic goes on).
fn drain_meets_panic(e: &'static Engine, workers: usize, poller_co: bool, poller_panics: bool) {
    rt_init(workers);
    e.begin();
    let body = move || -> u32 {
        let r = std::panic::catch_unwind(std::panic::AssertUnwindSafe(|| {
            let _f = FrameEnd;
            cqueue::scope(|cq| {
                let late0 = LateEnd(0);
                go!(cq, 0, move |_es| {
                    let _late = &late0;
                    ACTIVE.fetch_add(1, Ordering::SeqCst);
                    let _g = ActiveGuard(0);
                    std::panic::panic_any(66u32)
                });
                let late1 = LateEnd(1);
                go!(cq, 1, move |es| {
                    let _late = &late1;
                    ACTIVE.fetch_add(1, Ordering::SeqCst);
                    let _g = ActiveGuard(1);
                    coroutine::sleep(Duration::from_millis(2));
                    es.send(0);
                });
                if coroutine::is_coroutine() {
                    coroutine::sleep(Duration::from_millis(1));
                } else {
                    e.vsleep(MS);
                }
                if poller_panics {
                    std::panic::panic_any(77u32);
                }
            });
        }));
        let code = match r {
            Ok(()) => 0,
            Err(p) => p.downcast_ref::<u32>().cloned().unwrap_or(1),
        };
        if ACTIVE.load(Ordering::SeqCst) != 0 || (0..2).any(|i| LATE_ENDED[i].load(Ordering::SeqCst) != 1) {
            LEFT_WITH_ARMS.store(true, Ordering::SeqCst);
        }
        code
    };
    let code = if poller_co {
        match go!(body).join() {
            Ok(c) => c,
            Err(_) => e.fail("unexpected_panic", "the polling coroutine panicked outside the scope"),
        }
    } else {
        body()
    };
    if LEFT_WITH_ARMS.load(Ordering::SeqCst) {
        e.fail("arm_still_running", "the cqueue scope was left while a select coroutine was still executing");
    }
    let want = if poller_panics { 77 } else { 66 };
    if code != want {
        e.fail("panic_not_reraised", &format!("the scope ended with panic code {} (0 = none), expected {}", code, want));
    }
    e.quiesce();
    e.note(&format!("code={}", code));
}

pub fn build(quick: bool) -> Vec<Scenario> {
    let mut v = vec![];
    for w in [1usize, 2] {
        for (co, pp) in [(true, false), (false, false), (true, true), (false, true)] {
            if quick && w == 1 && !co {
                continue;
            }
            v.push(Scenario::new(
                "C16",
                "drain_meets_panic",
                format!("cqueue.drain_meets_arm_panic.{}{}.w{}", if co { "co_poller" } else { "thread_poller" }, if pp { ".poller_panics" } else { "" }, w),
                Arc::new(move |e| drain_meets_panic(e, w, co, pp)),
            ));
        }
    }
    for w in [1usize, 2] {
        v.push(Scenario::new("C16", "drain_cancelled", format!("cqueue.owner_cancelled_in_final_drain.w{}", w), Arc::new(move |e| drain_cancelled(e, w, false))));
        v.push(Scenario::new("C16", "drain_cancelled", format!("select.owner_cancelled_in_final_drain.w{}", w), Arc::new(move |e| drain_cancelled(e, w, true))));
    }
    for w in [1usize, 2] {
        v.push(Scenario::new("C16", "poll", format!("poll.co.ready_yield.w{}", w), Arc::new(move |e| poll_run(e, w, true, &[Top::Ready, Top::Yield], 1, 0, false))));
        v.push(Scenario::new("C16", "poll", format!("poll.co.recv_yield.w{}", w), Arc::new(move |e| poll_run(e, w, true, &[Top::Recv, Top::Yield], 1, 0, false))));
        v.push(Scenario::new("C16", "poll", format!("poll.co.sleep_ready.t1ms.w{}", w), Arc::new(move |e| poll_run(e, w, true, &[Top::Sleep, Top::Ready], 1, 1, false))).t2());
        v.push(Scenario::new("C16", "poll", format!("poll.co.yield_yield.x2.w{}", w), Arc::new(move |e| poll_run(e, w, true, &[Top::Yield, Top::Yield], 2, 0, false))));
        v.push(Scenario::new("C16", "poll", format!("poll.co.remove0.yield_yield.w{}", w), Arc::new(move |e| poll_run(e, w, true, &[Top::Yield, Top::Yield], 1, 0, true))));
        v.push(Scenario::new("C16", "poll", format!("poll.co.panic_yield.w{}", w), Arc::new(move |e| poll_run(e, w, true, &[Top::Panic, Top::Yield], 1, 0, false))));
        v.push(Scenario::new("C16", "poll", format!("poll.thread.ready_yield.w{}", w), Arc::new(move |e| poll_run_thread(e, w, &[Top::Ready, Top::Yield], 1, false, false))));
        v.push(Scenario::new("C16", "poll", format!("poll.thread.yield_yield.x2.w{}", w), Arc::new(move |e| poll_run_thread(e, w, &[Top::Yield, Top::Yield], 2, false, false))));
        // an arm ends by cancellation (removed) and another one panics: the panic is re-raised whichever ends first
        v.push(Scenario::new("C16", "poll", format!("poll.co.remove0.yield_panic.w{}", w), Arc::new(move |e| poll_run(e, w, true, &[Top::Yield, Top::Panic], 1, 0, true))));
        v.push(Scenario::new("C16", "poll", format!("poll.co.remove0.sleep_panic.w{}", w), Arc::new(move |e| poll_run(e, w, true, &[Top::Sleep, Top::Panic], 1, 0, true))).t2());
        // an arm panics while its sibling never produces anything: the poller, parked or not, must get the panic
        if w == 1 {
            // known finding (default schedule only, every execution runs into the step horizon): with a coroutine as the
            // poller the cancelled sibling cannot get its Cancel panic while the poller's unwind is suspended on the worker
            v.push(Scenario::new("C16", "poll_known", "poll.co.panic_idle.w1", Arc::new(move |e| poll_run(e, 1, true, &[Top::Panic, Top::Idle], 1, 0, false))).sequential().bound(0).horizon(1_500));
        }
        v.push(Scenario::new("C16", "poll", format!("poll.thread.panic_idle.w{}", w), Arc::new(move |e| poll_run(e, w, false, &[Top::Panic, Top::Idle], 1, 0, false))));
        v.push(Scenario::new("C16", "poll", format!("poll.thread.panic_idlepark.w{}", w), Arc::new(move |e| poll_run(e, w, false, &[Top::Panic, Top::IdlePark], 1, 0, false))));
        v.push(Scenario::new("C16", "poll", format!("poll.thread.idle_panic.t1ms.w{}", w), Arc::new(move |e| poll_run(e, w, false, &[Top::Idle, Top::Panic], 1, 1, false))).t2());
        // an arm that is removed (cancelled) while its top half is between cancellation points
        v.push(Scenario::new("C16", "poll", format!("poll.thread.remove0.busy_yield.w{}", w), Arc::new(move |e| poll_run_thread(e, w, &[Top::Busy, Top::Yield], 1, true, false))));
        v.push(Scenario::new("C16", "poll", format!("poll.thread.remove0_at_send.busy_yield.w{}", w), Arc::new(move |e| poll_run_thread(e, w, &[Top::Busy, Top::Yield], 1, true, true))));
        v.push(Scenario::new("C16", "poll", format!("poll.co.remove0.busy_yield.w{}", w), Arc::new(move |e| poll_run(e, w, true, &[Top::Busy, Top::Yield], 1, 0, true))));
        v.push(Scenario::new("C16", "poll", format!("poll.thread.busy_ready.w{}", w), Arc::new(move |e| poll_run_thread(e, w, &[Top::Busy, Top::Ready], 1, false, false))));
        v.push(Scenario::new("C16", "select", format!("select.recv_vs_yield.w{}", w), Arc::new(move |e| select_run(e, w, Top::Yield, false))));
        v.push(Scenario::new("C16", "select", format!("select.recv_vs_sleep.sent_first.w{}", w), Arc::new(move |e| select_run(e, w, Top::Sleep, true))).t2());
        v.push(Scenario::new("C16", "select", format!("select.recv_vs_ready.w{}", w), Arc::new(move |e| select_run(e, w, Top::Ready, false))));
    }
    if !quick {
        v.push(Scenario::new("C16", "poll", "poll.co.recv_yield_sleep.w2", Arc::new(move |e| poll_run(e, 2, true, &[Top::Recv, Top::Yield, Top::Sleep], 1, 0, false))));
    }
    v.into_iter().map(|s| s.tier(quick).vt_horizon(100_000_000).horizon(6_000)).collect()
}
