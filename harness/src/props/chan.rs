//! C06 / C07 - channels: exactly-once in-order delivery, wake-ups, and disconnect (mpsc, spsc, mpmc)
use crate::engine::Engine;
use crate::explore::Scenario;
use crate::util::*;
use std::sync::mpsc::{RecvTimeoutError, TryRecvError};
use std::sync::{Arc, Mutex};
use std::time::Duration;

pub trait Chan: 'static {
    const KIND: &'static str;
    type Tx: Send + 'static;
    type Rx: Send + 'static;
    fn new() -> (Self::Tx, Self::Rx);
    fn send(tx: &Self::Tx, v: Tracked) -> Result<(), Tracked>;
    fn recv(rx: &Self::Rx) -> Result<Tracked, ()>;
    /// Err(true) = disconnected, Err(false) = empty
    fn try_recv(rx: &Self::Rx) -> Result<Tracked, bool>;
    /// Err(true) = disconnected, Err(false) = timeout
    fn recv_timeout(rx: &Self::Rx, d: Duration) -> Result<Tracked, bool>;
    fn clone_tx(tx: &Self::Tx) -> Option<Self::Tx>;
    fn clone_rx(rx: &Self::Rx) -> Option<Self::Rx>;
}

pub struct Mpsc;
impl Chan for Mpsc {
    const KIND: &'static str = "mpsc";
    type Tx = may::sync::mpsc::Sender<Tracked>;
    type Rx = may::sync::mpsc::Receiver<Tracked>;
    fn new() -> (Self::Tx, Self::Rx) {
        may::sync::mpsc::channel()
    }
    fn send(tx: &Self::Tx, v: Tracked) -> Result<(), Tracked> {
        tx.send(v).map_err(|e| e.0)
    }
    fn recv(rx: &Self::Rx) -> Result<Tracked, ()> {
        rx.recv().map_err(|_| ())
    }
    fn try_recv(rx: &Self::Rx) -> Result<Tracked, bool> {
        rx.try_recv().map_err(|e| e == TryRecvError::Disconnected)
    }
    fn recv_timeout(rx: &Self::Rx, d: Duration) -> Result<Tracked, bool> {
        rx.recv_timeout(d).map_err(|e| e == RecvTimeoutError::Disconnected)
    }
    fn clone_tx(tx: &Self::Tx) -> Option<Self::Tx> {
        Some(tx.clone())
    }
    fn clone_rx(_rx: &Self::Rx) -> Option<Self::Rx> {
        None
    }
}

pub struct Spsc;
impl Chan for Spsc {
    const KIND: &'static str = "spsc";
    type Tx = may::sync::spsc::Sender<Tracked>;
    type Rx = may::sync::spsc::Receiver<Tracked>;
    fn new() -> (Self::Tx, Self::Rx) {
        may::sync::spsc::channel()
    }
    fn send(tx: &Self::Tx, v: Tracked) -> Result<(), Tracked> {
        tx.send(v).map_err(|e| e.0)
    }
    fn recv(rx: &Self::Rx) -> Result<Tracked, ()> {
        rx.recv().map_err(|_| ())
    }
    fn try_recv(rx: &Self::Rx) -> Result<Tracked, bool> {
        rx.try_recv().map_err(|e| e == TryRecvError::Disconnected)
    }
    fn recv_timeout(rx: &Self::Rx, _d: Duration) -> Result<Tracked, bool> {
        // spsc has no timed receive
        Self::try_recv(rx)
    }
    fn clone_tx(_tx: &Self::Tx) -> Option<Self::Tx> {
        None
    }
    fn clone_rx(_rx: &Self::Rx) -> Option<Self::Rx> {
        None
    }
}

pub struct Mpmc;
impl Chan for Mpmc {
    const KIND: &'static str = "mpmc";
    type Tx = may::sync::mpmc::Sender<Tracked>;
    type Rx = may::sync::mpmc::Receiver<Tracked>;
    fn new() -> (Self::Tx, Self::Rx) {
        may::sync::mpmc::channel()
    }
    fn send(tx: &Self::Tx, v: Tracked) -> Result<(), Tracked> {
        tx.send(v).map_err(|e| e.0)
    }
    fn recv(rx: &Self::Rx) -> Result<Tracked, ()> {
        rx.recv().map_err(|_| ())
    }
    fn try_recv(rx: &Self::Rx) -> Result<Tracked, bool> {
        rx.try_recv().map_err(|e| e == TryRecvError::Disconnected)
    }
    fn recv_timeout(rx: &Self::Rx, d: Duration) -> Result<Tracked, bool> {
        rx.recv_timeout(d).map_err(|e| e == RecvTimeoutError::Disconnected)
    }
    fn clone_tx(tx: &Self::Tx) -> Option<Self::Tx> {
        Some(tx.clone())
    }
    fn clone_rx(rx: &Self::Rx) -> Option<Self::Rx> {
        Some(rx.clone())
    }
}

#[derive(Clone, Debug, PartialEq)]
pub enum Got {
    V(u32),
    Empty,
    Timeout(u64),
    Disc,
}

/// receiver program: R recv, Y try_recv, T recv_timeout(1ms), U recv_timeout(1ms) followed by recv if it timed out;
/// then `drain`: recv until disconnected
fn receive<C: Chan>(e: &'static Engine, rx: &C::Rx, ops: &str, drain: bool) -> Vec<Got> {
    let mut got = vec![];
    let mut disconnected = false;
    for o in ops.chars() {
        if disconnected {
            break;
        }
        match o {
            'R' => match C::recv(rx) {
                Ok(v) => got.push(Got::V(v.id())),
                Err(()) => {
                    got.push(Got::Disc);
                    disconnected = true;
                }
            },
            'Y' => match C::try_recv(rx) {
                Ok(v) => got.push(Got::V(v.id())),
                Err(true) => {
                    got.push(Got::Disc);
                    disconnected = true;
                }
                Err(false) => got.push(Got::Empty),
            },
            'T' | 'U' => {
                let t0 = e.now();
                match C::recv_timeout(rx, Duration::from_millis(1)) {
                    Ok(v) => got.push(Got::V(v.id())),
                    Err(true) => {
                        got.push(Got::Disc);
                        disconnected = true;
                    }
                    Err(false) => {
                        got.push(Got::Timeout(e.now() - t0));
                        if o == 'U' {
                            match C::recv(rx) {
                                Ok(v) => got.push(Got::V(v.id())),
                                Err(()) => {
                                    got.push(Got::Disc);
                                    disconnected = true;
                                }
                            }
                        }
                    }
                }
            }
            _ => unreachable!(),
        }
    }
    if drain && !disconnected {
        loop {
            match C::recv(rx) {
                Ok(v) => got.push(Got::V(v.id())),
                Err(()) => {
                    got.push(Got::Disc);
                    break;
                }
            }
        }
    }
    got
}

/// senders: (kind, messages); receivers: (kind, ops). The last sender handle is dropped by its owner
/// after its last send; every receiver finally drains until Disconnected.
#[allow(clippy::too_many_arguments)]
/// Sender kinds 't' / 'c' are a thread / a coroutine that sleeps 1 ms before its first send, so that the send meets the
/// expiry of a receiver's recv_timeout(1 ms).
fn deliver<C: Chan>(e: &'static Engine, workers: usize, senders: &'static [(char, usize)], receivers: &'static [(char, &'static str)], prequeued: usize, main_holds_tx: bool) {
    let any_co = senders.iter().any(|s| s.0 == 'C' || s.0 == 'c') || receivers.iter().any(|r| r.0 == 'C');
    if any_co {
        rt_init(workers);
    }
    let (tx, rx) = C::new();
    let mut sent: Vec<u32> = vec![];
    // values queued before the window opens (ids 90..)
    for k in 0..prequeued {
        let id = 90 + k as u32;
        if C::send(&tx, Tracked::new(id)).is_err() {
            e.fail("send_failed", "send failed although the receiver exists");
        }
        sent.push(id);
    }
    let results: Arc<Mutex<Vec<Vec<Got>>>> = Arc::new(Mutex::new(vec![vec![]; receivers.len()]));
    let mut txs: Vec<C::Tx> = vec![];
    for i in 0..senders.len() {
        if i + 1 < senders.len() {
            txs.push(C::clone_tx(&tx).expect("channel kind has a single sender"));
        }
    }
    let mut rxs: Vec<C::Rx> = vec![];
    for i in 0..receivers.len() {
        if i + 1 < receivers.len() {
            rxs.push(C::clone_rx(&rx).expect("channel kind has a single receiver"));
        }
    }
    let main_tx = if main_holds_tx { C::clone_tx(&tx) } else { None };
    if senders.is_empty() {
        if main_tx.is_none() {
            // the only sender is dropped inside the window by the main thread
            txs.push(tx);
        } else {
            drop(tx);
        }
    } else {
        txs.push(tx);
    }
    rxs.push(rx);
    e.begin();
    let mut hs = vec![];
    for (i, (k, ops)) in receivers.iter().enumerate() {
        let rx = rxs.remove(0);
        let results = results.clone();
        hs.push(spawn_part(e, *k, move || {
            let g = receive::<C>(e, &rx, ops, true);
            results.lock().unwrap_or_else(|e| e.into_inner())[i] = g;
            drop(rx);
        }));
    }
    if senders.is_empty() {
        // pure disconnect: the last sender goes away while the receivers are somewhere in recv
        drop(txs.pop());
        drop(main_tx);
    } else {
        for (s, (k, n)) in senders.iter().enumerate() {
            let tx = txs.remove(0);
            let n = *n;
            for j in 0..n {
                sent.push((s * 10 + j + 1) as u32);
            }
            let delayed = k.is_lowercase();
            hs.push(spawn_part(e, k.to_ascii_uppercase(), move || {
                if delayed {
                    if may::coroutine::is_coroutine() {
                        may::coroutine::sleep(Duration::from_millis(1));
                    } else {
                        e.vsleep(1_000_000);
                    }
                }
                for j in 0..n {
                    let id = (s * 10 + j + 1) as u32;
                    if C::send(&tx, Tracked::new(id)).is_err() {
                        e.fail("send_failed", "send failed although a receiver exists");
                    }
                }
                drop(tx);
            }));
        }
        drop(main_tx);
    }
    for h in hs {
        if join_part(e, h).is_err() {
            e.fail("unexpected_panic", "a participant panicked");
        }
    }
    // ---- oracle
    let res = results.lock().unwrap_or_else(|e| e.into_inner()).clone();
    let mut all: Vec<u32> = vec![];
    for (r, g) in res.iter().enumerate() {
        let vals: Vec<u32> = g.iter().filter_map(|x| if let Got::V(v) = x { Some(*v) } else { None }).collect();
        // per sender order within one receiver
        for s in 0..10u32 {
            let mine: Vec<u32> = vals.iter().cloned().filter(|v| v / 10 == s).collect();
            if mine.windows(2).any(|w| w[0] >= w[1]) {
                e.fail("sender_order", &format!("receiver {} got the values of sender {} out of order: {:?}", r, s, mine));
            }
        }
        // nothing after Disconnected, Disconnected exactly at the end
        if let Some(p) = g.iter().position(|x| *x == Got::Disc) {
            if p + 1 != g.len() {
                e.fail("after_disconnect", &format!("receiver {} got results after Disconnected: {:?}", r, g));
            }
        } else {
            e.fail("no_disconnect", &format!("receiver {} never saw Disconnected: {:?}", r, g));
        }
        for x in g.iter() {
            if let Got::Timeout(dt) = x {
                if *dt < 1_000_000 {
                    e.fail("timeout_early", &format!("recv_timeout(1ms) reported Timeout after {} ns", dt));
                }
            }
        }
        all.extend(vals);
    }
    let mut a = all.clone();
    a.sort();
    let mut b = sent.clone();
    b.sort();
    if a != b {
        e.fail("exactly_once", &format!("sent {:?} but received {:?} ({:?})", b, all, res));
    }
    check_drops(e, sent.iter().cloned());
    e.note(&fmt_list(&res));
}

static RX_GONE: std::sync::atomic::AtomicBool = std::sync::atomic::AtomicBool::new(false);

/// the receiving side goes away: send must fail and return the value, queued values are dropped once
fn rx_gone<C: Chan>(e: &'static Engine, workers: usize, senders: &'static [(char, usize)], rx_kind: char, rx_ops: &'static str) {
    let any_co = senders.iter().any(|s| s.0 == 'C') || rx_kind == 'C';
    if any_co {
        rt_init(workers);
    }
    let (tx, rx) = C::new();
    let mut txs: Vec<C::Tx> = vec![];
    for i in 0..senders.len() {
        if i + 1 < senders.len() {
            txs.push(C::clone_tx(&tx).unwrap());
        }
    }
    txs.push(tx);
    let results: Arc<Mutex<(Vec<Got>, Vec<(u32, bool)>)>> = Arc::new(Mutex::new((vec![], vec![])));
    e.begin();
    let mut hs = vec![];
    {
        let results = results.clone();
        hs.push(spawn_part(e, rx_kind, move || {
            let g = receive::<C>(e, &rx, rx_ops, false);
            results.lock().unwrap_or_else(|e| e.into_inner()).0 = g;
            drop(rx);
            RX_GONE.store(true, std::sync::atomic::Ordering::SeqCst);
        }));
    }
    let mut ids = vec![];
    for (s, (k, n)) in senders.iter().enumerate() {
        let tx = txs.remove(0);
        let n = *n;
        for j in 0..n {
            ids.push((s * 10 + j + 1) as u32);
        }
        let results = results.clone();
        hs.push(spawn_part(e, *k, move || {
            let mut mine = vec![];
            for j in 0..n {
                let id = (s * 10 + j + 1) as u32;
                let gone_before = RX_GONE.load(std::sync::atomic::Ordering::SeqCst);
                match C::send(&tx, Tracked::new(id)) {
                    Ok(()) => {
                        if gone_before {
                            e.fail("send_after_receiver_gone", &format!("send({}) returned Ok although the last Receiver had been dropped before the call", id));
                        }
                        mine.push((id, true))
                    }
                    Err(v) => {
                        if v.id() != id {
                            e.fail("send_error_value", &format!("send({}) failed but handed back {}", id, v.id()));
                        }
                        mine.push((id, false));
                    }
                }
            }
            results.lock().unwrap_or_else(|e| e.into_inner()).1.extend(mine);
            drop(tx);
        }));
    }
    for h in hs {
        if join_part(e, h).is_err() {
            e.fail("unexpected_panic", "a participant panicked");
        }
    }
    let (got, sends) = results.lock().unwrap_or_else(|e| e.into_inner()).clone();
    let vals: Vec<u32> = got.iter().filter_map(|x| if let Got::V(v) = x { Some(*v) } else { None }).collect();
    for v in vals.iter() {
        if !sends.iter().any(|(id, ok)| id == v && *ok) {
            e.fail("received_unsent", &format!("received {} whose send did not return Ok: sends {:?}", v, sends));
        }
    }
    // after the receiver is gone no send may succeed: a send that started after the receiver thread ended fails
    // (checked through the drop counters: every payload, received, queued or rejected, is dropped exactly once)
    check_drops(e, ids.iter().cloned());
    e.note(&format!("{} {}", fmt_list(&got), fmt_list(&sends)));
}

/// like `deliver`, but every Sender stays alive until the receivers got all messages (each receiver runs exactly
/// its operations, no final drain): only the send itself can wake a blocked receiver, not the last drop
fn deliver_hold<C: Chan>(e: &'static Engine, workers: usize, senders: &'static [(char, usize)], receivers: &'static [(char, &'static str)]) {
    rt_init(workers);
    let (tx, rx) = C::new();
    let done = Arc::new(may::sync::SyncFlag::new());
    let left = Arc::new(std::sync::atomic::AtomicUsize::new(receivers.len()));
    let results: Arc<Mutex<Vec<Vec<Got>>>> = Arc::new(Mutex::new(vec![vec![]; receivers.len()]));
    let mut txs: Vec<C::Tx> = vec![];
    for i in 0..senders.len() {
        if i + 1 < senders.len() {
            txs.push(C::clone_tx(&tx).unwrap());
        }
    }
    txs.push(tx);
    let mut rxs: Vec<C::Rx> = vec![];
    for i in 0..receivers.len() {
        if i + 1 < receivers.len() {
            rxs.push(C::clone_rx(&rx).unwrap());
        }
    }
    rxs.push(rx);
    let mut sent = vec![];
    e.begin();
    let mut hs = vec![];
    for (i, (k, ops)) in receivers.iter().enumerate() {
        let rx = rxs.remove(0);
        let (results, done, left) = (results.clone(), done.clone(), left.clone());
        hs.push(spawn_part(e, *k, move || {
            let g = receive::<C>(e, &rx, ops, false);
            results.lock().unwrap_or_else(|e| e.into_inner())[i] = g;
            if left.fetch_sub(1, std::sync::atomic::Ordering::SeqCst) == 1 {
                done.fire();
            }
            // the receiver handle lives until the senders are gone too
            done.wait();
            drop(rx);
        }));
    }
    for (s, (k, n)) in senders.iter().enumerate() {
        let tx = txs.remove(0);
        let n = *n;
        for j in 0..n {
            sent.push((s * 10 + j + 1) as u32);
        }
        let done = done.clone();
        let delayed = k.is_lowercase();
        hs.push(spawn_part(e, k.to_ascii_uppercase(), move || {
            if delayed {
                if may::coroutine::is_coroutine() {
                    may::coroutine::sleep(Duration::from_millis(1));
                } else {
                    e.vsleep(1_000_000);
                }
            }
            for j in 0..n {
                let id = (s * 10 + j + 1) as u32;
                if C::send(&tx, Tracked::new(id)).is_err() {
                    e.fail("send_failed", "send failed although a receiver exists");
                }
            }
            // e.g. waiting for a reply: the Sender stays alive
            done.wait();
            drop(tx);
        }));
    }
    for h in hs {
        if join_part(e, h).is_err() {
            e.fail("unexpected_panic", "a participant panicked");
        }
    }
    let res = results.lock().unwrap_or_else(|e| e.into_inner()).clone();
    let mut all: Vec<u32> = vec![];
    for g in res.iter() {
        for x in g.iter() {
            match x {
                Got::V(v) => all.push(*v),
                Got::Disc => e.fail("spurious_disconnect", "a receiver saw Disconnected while every Sender was alive"),
                _ => {}
            }
        }
    }
    all.sort();
    sent.sort();
    if all != sent {
        e.fail("exactly_once", &format!("sent {:?} but received {:?}", sent, all));
    }
    check_drops(e, sent.iter().cloned());
    e.note(&fmt_list(&res));
}

fn mk_hold<C: Chan>(workers: usize, senders: &'static [(char, usize)], receivers: &'static [(char, &'static str)]) -> Scenario {
    let name = format!(
        "{}.hold_tx.tx{}.rx{}.w{}",
        C::KIND,
        senders.iter().map(|(k, n)| format!("{}{}", k, n)).collect::<Vec<_>>().join("_"),
        receivers.iter().map(|(k, o)| format!("{}{}", k, o)).collect::<Vec<_>>().join("_"),
        workers
    );
    let s = Scenario::new("C06", C::KIND, name, Arc::new(move |e| deliver_hold::<C>(e, workers, senders, receivers)));
    if receivers.iter().any(|r| r.1.contains('T') || r.1.contains('U')) {
        s.t2()
    } else {
        s
    }
}

fn mk_deliver<C: Chan>(workers: usize, senders: &'static [(char, usize)], receivers: &'static [(char, &'static str)], prequeued: usize, main_holds_tx: bool, prop: &'static str) -> Scenario {
    let any_co = senders.iter().any(|s| s.0 == 'C' || s.0 == 'c') || receivers.iter().any(|r| r.0 == 'C');
    let name = format!(
        "{}.tx{}.rx{}{}{}{}",
        C::KIND,
        if senders.is_empty() { "drop".to_string() } else { senders.iter().map(|(k, n)| format!("{}{}", k, n)).collect::<Vec<_>>().join("_") },
        receivers.iter().map(|(k, o)| format!("{}{}", k, o)).collect::<Vec<_>>().join("_"),
        if prequeued > 0 { format!(".q{}", prequeued) } else { String::new() },
        if main_holds_tx { ".mainclone" } else { "" },
        if any_co { format!(".w{}", workers) } else { String::new() },
    );
    let s = Scenario::new(prop, C::KIND, name, Arc::new(move |e| deliver::<C>(e, workers, senders, receivers, prequeued, main_holds_tx)));
    let s = if any_co { s } else { s.fine() };
    if receivers.iter().any(|r| r.1.contains('T') || r.1.contains('U')) {
        s.t2()
    } else {
        s
    }
}

fn mk_rx_gone<C: Chan>(workers: usize, senders: &'static [(char, usize)], rx_kind: char, rx_ops: &'static str) -> Scenario {
    let any_co = senders.iter().any(|s| s.0 == 'C') || rx_kind == 'C';
    let name = format!(
        "{}.rxgone.tx{}.rx{}{}{}",
        C::KIND,
        senders.iter().map(|(k, n)| format!("{}{}", k, n)).collect::<Vec<_>>().join("_"),
        rx_kind,
        rx_ops,
        if any_co { format!(".w{}", workers) } else { String::new() },
    );
    let s = Scenario::new("C07", C::KIND, name, Arc::new(move |e| rx_gone::<C>(e, workers, senders, rx_kind, rx_ops)));
    if any_co {
        s
    } else {
        s.fine()
    }
}

pub fn build_c06(quick: bool) -> Vec<Scenario> {
    let mut v = vec![];
    let p = "C06";
    // thread endpoints (component level, fine)
    v.push(mk_deliver::<Mpsc>(1, &[('T', 1), ('T', 1)], &[('T', "RR")], 0, false, p));
    v.push(mk_deliver::<Mpsc>(1, &[('T', 2)], &[('T', "YR")], 0, false, p));
    v.push(mk_deliver::<Spsc>(1, &[('T', 2)], &[('T', "RY")], 0, false, p));
    v.push(mk_deliver::<Mpmc>(1, &[('T', 2)], &[('T', "R"), ('T', "R")], 0, false, p));
    v.push(mk_deliver::<Mpmc>(1, &[('T', 1), ('T', 1)], &[('T', "RY")], 0, false, p));
    for w in [1usize, 2] {
        // coroutine receiver, mixed senders
        v.push(mk_deliver::<Mpsc>(w, &[('T', 1), ('C', 1)], &[('C', "RR")], 0, false, p));
        v.push(mk_deliver::<Mpsc>(w, &[('C', 2)], &[('C', "R")], 0, false, p));
        v.push(mk_deliver::<Mpsc>(w, &[('C', 1)], &[('T', "R")], 0, false, p));
        v.push(mk_deliver::<Mpsc>(w, &[('C', 1), ('C', 1)], &[('C', "TR")], 0, false, p));
        v.push(mk_deliver::<Spsc>(w, &[('C', 2)], &[('C', "RR")], 0, false, p));
        v.push(mk_deliver::<Spsc>(w, &[('T', 2)], &[('C', "R")], 0, false, p));
        v.push(mk_deliver::<Spsc>(w, &[('C', 1)], &[('T', "YR")], 0, false, p));
        v.push(mk_deliver::<Mpmc>(w, &[('C', 2)], &[('C', "R"), ('C', "R")], 0, false, p));
        v.push(mk_deliver::<Mpmc>(w, &[('T', 1), ('C', 1)], &[('C', "R"), ('T', "R")], 0, false, p));
        v.push(mk_deliver::<Mpmc>(w, &[('C', 2)], &[('C', "TR")], 0, false, p));
    }
    for w in [1usize, 2] {
        v.push(mk_hold::<Spsc>(w, &[('T', 2)], &[('C', "RR")]));
        v.push(mk_hold::<Spsc>(w, &[('C', 2)], &[('T', "RR")]));
        v.push(mk_hold::<Spsc>(w, &[('C', 3)], &[('C', "RRR")]));
        v.push(mk_hold::<Mpsc>(w, &[('C', 1), ('T', 1)], &[('C', "RR")]));
        v.push(mk_hold::<Mpmc>(w, &[('C', 2)], &[('C', "R"), ('C', "R")]));
        // the send meets the expiry of recv_timeout and the Sender stays alive: a permit lost in that race is never replaced
        v.push(mk_hold::<Mpmc>(w, &[('t', 1)], &[('T', "U")]));
        v.push(mk_hold::<Mpmc>(w, &[('t', 1)], &[('C', "U")]));
        v.push(mk_hold::<Mpmc>(w, &[('c', 1)], &[('C', "U")]));
        v.push(mk_hold::<Mpsc>(w, &[('t', 1)], &[('C', "U")]));
        v.push(mk_hold::<Mpsc>(w, &[('c', 1)], &[('T', "U")]));
    }
    // more than one queue block of messages: the channel's queue crosses its block boundary (mpsc / mpmc 64, spsc 32 slots)
    for w in [1usize, 2] {
        v.push(mk_deliver::<Mpsc>(w, &[('C', 2)], &[('C', "RR")], 63, false, p));
        v.push(mk_deliver::<Spsc>(w, &[('C', 2)], &[('C', "RR")], 31, false, p));
        v.push(mk_deliver::<Mpmc>(w, &[('C', 1), ('T', 1)], &[('C', "R"), ('C', "R")], 63, false, p));
    }
    // the send meets the expiry of the receiver's recv_timeout: the value is delivered by that call or by the next one
    for s in [mk_deliver::<Mpmc>(1, &[('t', 1)], &[('T', "T")], 0, false, p), mk_deliver::<Mpsc>(1, &[('t', 1)], &[('T', "T")], 0, false, p)] {
        // and with the sender ahead of the receiver in the default schedule
        let mut d = s.clone().desc();
        d.name = format!("{}.tx_first", d.name);
        v.push(s);
        v.push(d);
    }
    for w in [1usize, 2] {
        v.push(mk_deliver::<Mpmc>(w, &[('t', 1)], &[('C', "T")], 0, true, p));
        v.push(mk_deliver::<Mpmc>(w, &[('c', 1)], &[('T', "T"), ('C', "R")], 0, false, p));
        v.push(mk_deliver::<Mpsc>(w, &[('t', 1)], &[('C', "T")], 0, true, p));
        v.push(mk_deliver::<Spsc>(w, &[('c', 1)], &[('C', "R")], 0, false, p));
    }
    if !quick {
        v.push(mk_deliver::<Mpsc>(2, &[('C', 2), ('C', 2)], &[('C', "RRRR")], 0, false, p));
        v.push(mk_deliver::<Mpmc>(2, &[('C', 2), ('T', 1)], &[('C', "R"), ('C', "Y")], 1, false, p));
        v.push(mk_deliver::<Spsc>(2, &[('C', 3)], &[('C', "RYR")], 0, false, p));
    }
    v.into_iter().map(|s| s.tier(quick)).collect()
}

pub fn build_c07(quick: bool) -> Vec<Scenario> {
    let mut v = vec![];
    let p = "C07";
    // the last sender is dropped while the receiver is before / inside / after registering
    for q in [0usize, 1] {
        v.push(mk_deliver::<Mpsc>(1, &[], &[('T', "R")], q, false, p));
        v.push(mk_deliver::<Spsc>(1, &[], &[('T', "R")], q, false, p));
        v.push(mk_deliver::<Mpmc>(1, &[], &[('T', "R")], q, false, p));
        v.push(mk_deliver::<Mpmc>(1, &[], &[('T', "R"), ('T', "R")], q, false, p));
        for w in [1usize, 2] {
            v.push(mk_deliver::<Mpsc>(w, &[], &[('C', "R")], q, false, p));
            v.push(mk_deliver::<Spsc>(w, &[], &[('C', "R")], q, false, p));
            v.push(mk_deliver::<Mpmc>(w, &[], &[('C', "R")], q, false, p));
            v.push(mk_deliver::<Mpmc>(w, &[], &[('C', "R"), ('C', "R")], q, false, p));
            if q == 0 {
                v.push(mk_deliver::<Mpmc>(w, &[], &[('C', "R"), ('T', "R")], q, false, p));
                v.push(mk_deliver::<Mpsc>(w, &[], &[('C', "TR")], q, false, p));
                v.push(mk_deliver::<Mpsc>(w, &[], &[('C', "R")], q, true, p));
            }
        }
    }
    // the last sender goes away in the instant in which the timed receive of one receiver expires; a second receiver is
    // blocked behind it (mpmc hands out one disconnect permit that the receivers pass on)
    for w in [1usize, 2] {
        v.push(mk_deliver::<Mpmc>(w, &[('t', 0)], &[('C', "TR"), ('C', "R")], 0, false, p));
        v.push(mk_deliver::<Mpmc>(w, &[('c', 0)], &[('T', "TR"), ('C', "R")], 0, false, p));
    }
    v.push(mk_deliver::<Mpmc>(1, &[('t', 0)], &[('T', "TR"), ('T', "R")], 0, false, p));
    // a sender that still sends, then the last drop
    v.push(mk_deliver::<Mpsc>(1, &[('C', 1), ('T', 0)], &[('C', "RR")], 0, false, p));
    v.push(mk_deliver::<Spsc>(2, &[('C', 1)], &[('C', "RR")], 0, false, p));
    v.push(mk_deliver::<Mpmc>(2, &[('C', 1)], &[('C', "R"), ('C', "R")], 0, false, p));
    // the receiver goes away
    v.push(mk_rx_gone::<Mpsc>(1, &[('T', 2)], 'T', "Y"));
    v.push(mk_rx_gone::<Mpsc>(1, &[('C', 1), ('C', 1)], 'C', "R"));
    v.push(mk_rx_gone::<Spsc>(2, &[('C', 2)], 'C', "R"));
    v.push(mk_rx_gone::<Mpmc>(2, &[('C', 2)], 'C', "Y"));
    v.push(mk_rx_gone::<Mpmc>(1, &[('T', 1), ('T', 1)], 'T', "R"));
    if !quick {
        v.push(mk_deliver::<Mpmc>(2, &[], &[('C', "R"), ('C', "R"), ('C', "R")], 0, false, p));
        v.push(mk_deliver::<Mpmc>(2, &[], &[('C', "R"), ('C', "R")], 2, false, p));
    }
    v.into_iter().map(|s| s.tier(quick)).collect()
}
