//! C12 - RwLock: writers exclusive; the lock is free again once all guards are dropped
use crate::engine::Engine;
use crate::explore::Scenario;
use crate::util::*;
use may::sync::{RwLock, RwLockReadGuard, RwLockWriteGuard};
use std::sync::atomic::{AtomicBool, AtomicI32, Ordering};
use std::sync::{Arc, TryLockError};

static READERS: AtomicI32 = AtomicI32::new(0);
static WRITERS: AtomicI32 = AtomicI32::new(0);
static BAD: AtomicBool = AtomicBool::new(false);

fn enter_r() {
    READERS.fetch_add(1, Ordering::SeqCst);
    if WRITERS.load(Ordering::SeqCst) != 0 {
        BAD.store(true, Ordering::SeqCst);
    }
}
fn leave_r() {
    READERS.fetch_sub(1, Ordering::SeqCst);
}
fn enter_w() {
    if WRITERS.fetch_add(1, Ordering::SeqCst) != 0 || READERS.load(Ordering::SeqCst) != 0 {
        BAD.store(true, Ordering::SeqCst);
    }
}
fn leave_w() {
    WRITERS.fetch_sub(1, Ordering::SeqCst);
}

fn poison(l: &'static RwLock<u32>) {
    let r = std::panic::catch_unwind(|| {
        let _g = l.write().unwrap_or_else(|p| p.into_inner());
        panic!("poison the lock");
    });
    assert!(r.is_err());
}

/// R read, W write, r try_read, w try_write (each holds the lock over a scheduling point)
fn ops(e: &'static Engine, l: &'static RwLock<u32>, ops: &str) {
    for o in ops.chars() {
        match o {
            'R' => {
                let g = l.read().unwrap_or_else(|p| p.into_inner());
                enter_r();
                e.sched_point();
                let _ = *g;
                leave_r();
                drop(g);
            }
            'W' => {
                let mut g = l.write().unwrap_or_else(|p| p.into_inner());
                enter_w();
                let v = *g;
                e.sched_point();
                *g = v + 1;
                leave_w();
                drop(g);
            }
            'r' => {
                let g = match l.try_read() {
                    Ok(g) => Some(g),
                    Err(TryLockError::Poisoned(p)) => Some(p.into_inner()),
                    Err(TryLockError::WouldBlock) => None,
                };
                if let Some(g) = g {
                    enter_r();
                    e.sched_point();
                    leave_r();
                    drop(g);
                }
            }
            'w' => {
                let g = match l.try_write() {
                    Ok(g) => Some(g),
                    Err(TryLockError::Poisoned(p)) => Some(p.into_inner()),
                    Err(TryLockError::WouldBlock) => None,
                };
                if let Some(mut g) = g {
                    enter_w();
                    let v = *g;
                    e.sched_point();
                    *g = v + 1;
                    leave_w();
                    drop(g);
                }
            }
            _ => unreachable!(),
        }
    }
}

/// quiescent probe of the lock's internal state: with all guards dropped, a writer excludes readers and
/// writers, readers exclude writers, and the lock is free again afterwards (catches leaked reader / holder counts)
pub fn probe<T>(e: &'static Engine, l: &RwLock<T>) {
    fn got<G>(r: Result<G, TryLockError<G>>) -> Option<G> {
        match r {
            Ok(g) => Some(g),
            Err(TryLockError::Poisoned(p)) => Some(p.into_inner()),
            Err(TryLockError::WouldBlock) => None,
        }
    }
    let w = match got(l.try_write()) {
        Some(w) => w,
        None => e.fail("not_released", "probe: try_write() fails although all guards are dropped"),
    };
    if got(l.try_read()).is_some() {
        e.fail("writer_exclusive", "probe: try_read() succeeded while a write guard is held (leaked reader count?)");
    }
    if got(l.try_write()).is_some() {
        e.fail("writer_exclusive", "probe: a second try_write() succeeded while a write guard is held");
    }
    drop(w);
    let r1 = match got(l.try_read()) {
        Some(r) => r,
        None => e.fail("not_released", "probe: try_read() fails after the write guard was dropped"),
    };
    let r2 = got(l.try_read());
    if r2.is_none() {
        e.fail("readers_shared", "probe: a second reader is refused");
    }
    if got(l.try_write()).is_some() {
        e.fail("writer_exclusive", "probe: try_write() succeeded while read guards are held");
    }
    drop(r1);
    if got(l.try_write()).is_some() {
        e.fail("writer_exclusive", "probe: try_write() succeeded while one read guard is still held");
    }
    drop(r2);
    if got(l.try_write()).is_none() {
        e.fail("not_released", "probe: the lock is not free after all probe guards were dropped");
    }
}

fn run(e: &'static Engine, workers: usize, poisoned: bool, parts: &'static [(char, &'static str)], main_ops: &'static str, cancel: Option<usize>) {
    if needs_rt(parts) {
        rt_init(workers);
    }
    let l: &'static RwLock<u32> = Box::leak(Box::new(RwLock::new(0)));
    if poisoned {
        poison(l);
    }
    e.begin();
    let mut hs = vec![];
    for (k, o) in parts.iter() {
        hs.push(spawn_part(e, *k, move || ops(e, l, o)));
    }
    if let Some(c) = cancel {
        cancel_part(&hs[c]);
    }
    ops(e, l, main_ops);
    let mut out = String::new();
    for (i, h) in hs.into_iter().enumerate() {
        match join_part(e, h) {
            Ok(()) => out.push_str("ok "),
            Err(true) if cancel == Some(i) => out.push_str("cancel "),
            Err(true) => e.fail("cancel_unasked", "a participant ended with Cancel but was not cancelled"),
            Err(false) => e.fail("unexpected_panic", &format!("a participant panicked: {:?}", e.panics().last())),
        }
    }
    if BAD.load(Ordering::SeqCst) {
        e.fail("writer_exclusive", "a writer was inside the lock together with a reader or another writer");
    }
    match l.try_write() {
        Ok(_) => {}
        Err(TryLockError::Poisoned(_)) if poisoned => {}
        Err(TryLockError::Poisoned(_)) => e.fail("poisoned", "the lock is poisoned although nobody panicked inside it"),
        Err(TryLockError::WouldBlock) => e.fail("not_released", "all guards are dropped but try_write() says WouldBlock"),
    }
    probe(e, l);
    e.note(&out);
}

/// the main thread holds the write lock when the window opens, so every participant queues up (a writer in the global
/// lock, a first reader in the global lock while holding the reader mutex, later readers in the reader mutex); it cancels
/// one of them and unlocks at once: the hand-off races with the cancellation
fn run_held(e: &'static Engine, workers: usize, parts: &'static [(char, &'static str)], cancel: usize) {
    rt_init(workers);
    let l: &'static RwLock<u32> = Box::leak(Box::new(RwLock::new(0)));
    let g = l.write().unwrap();
    e.begin();
    let mut hs = vec![];
    for (k, o) in parts.iter() {
        hs.push(spawn_part(e, *k, move || ops(e, l, o)));
    }
    // everybody is queued
    e.quiesce();
    cancel_part(&hs[cancel]);
    drop(g);
    let mut out = String::new();
    for (i, h) in hs.into_iter().enumerate() {
        match join_part(e, h) {
            Ok(()) => out.push_str("ok "),
            Err(true) if i == cancel => out.push_str("cancel "),
            Err(true) => e.fail("cancel_unasked", "a participant ended with Cancel but was not cancelled"),
            Err(false) => e.fail("unexpected_panic", &format!("a participant panicked: {:?}", e.panics().last())),
        }
    }
    if BAD.load(Ordering::SeqCst) {
        e.fail("writer_exclusive", "a writer was inside the lock together with a reader or another writer");
    }
    probe(e, l);
    e.note(&out);
}

enum G {
    R(RwLockReadGuard<'static, u32>),
    W(RwLockWriteGuard<'static, u32>),
}

/// sequential sweep: all operation sequences of length `depth` against a reader/writer model
fn sweep(e: &'static Engine, depth: usize) {
    // R read, W write, r try_read, w try_write, D drop oldest guard, L drop newest guard, P poison
    let alphabet = ['R', 'W', 'r', 'w', 'D', 'L', 'P'];
    let mut idx = vec![0usize; depth];
    let mut count = 0u64;
    loop {
        let l: &'static RwLock<u32> = Box::leak(Box::new(RwLock::new(0)));
        let mut guards: Vec<G> = vec![];
        let mut poisoned = false;
        let seq: String = idx.iter().map(|i| alphabet[*i]).collect();
        for (step, &i) in idx.iter().enumerate() {
            let c = alphabet[i];
            let readers = guards.iter().filter(|g| matches!(g, G::R(_))).count();
            let writer = guards.iter().any(|g| matches!(g, G::W(_)));
            let was_poisoned = poisoned;
            let ctx = || format!("sequence {} step {} (readers {}, writer {}, poisoned {})", seq, step, readers, writer, was_poisoned);
            let poisoned_now = was_poisoned;
            let mut set_poisoned = false;
            let r = std::panic::catch_unwind(std::panic::AssertUnwindSafe(|| match c {
                'R' if !writer => {
                    let (g, p) = match l.read() {
                        Ok(g) => (g, false),
                        Err(p) => (p.into_inner(), true),
                    };
                    if p != poisoned_now {
                        e.fail("poison_report", &format!("read() reported poisoned={} at {}", p, ctx()));
                    }
                    guards.push(G::R(g));
                }
                'W' if !writer && readers == 0 => {
                    let (g, p) = match l.write() {
                        Ok(g) => (g, false),
                        Err(p) => (p.into_inner(), true),
                    };
                    if p != poisoned_now {
                        e.fail("poison_report", &format!("write() reported poisoned={} at {}", p, ctx()));
                    }
                    guards.push(G::W(g));
                }
                'r' => match l.try_read() {
                    Ok(g) => {
                        if writer || poisoned {
                            e.fail("try_read_result", &format!("try_read() returned Ok at {}", ctx()));
                        }
                        guards.push(G::R(g));
                    }
                    Err(TryLockError::Poisoned(p)) => {
                        if writer || !poisoned {
                            e.fail("try_read_result", &format!("try_read() returned Poisoned at {}", ctx()));
                        }
                        guards.push(G::R(p.into_inner()));
                    }
                    Err(TryLockError::WouldBlock) => {
                        if !writer {
                            e.fail("try_read_result", &format!("try_read() returned WouldBlock at {}", ctx()));
                        }
                    }
                },
                'w' => match l.try_write() {
                    Ok(g) => {
                        if writer || readers > 0 || poisoned {
                            e.fail("try_write_result", &format!("try_write() returned Ok at {}", ctx()));
                        }
                        guards.push(G::W(g));
                    }
                    Err(TryLockError::Poisoned(p)) => {
                        if writer || readers > 0 || !poisoned {
                            e.fail("try_write_result", &format!("try_write() returned Poisoned (with a guard) at {}", ctx()));
                        }
                        guards.push(G::W(p.into_inner()));
                    }
                    Err(TryLockError::WouldBlock) => {
                        if !writer && readers == 0 {
                            e.fail("try_write_result", &format!("try_write() returned WouldBlock at {}", ctx()));
                        }
                    }
                },
                'D' if !guards.is_empty() => {
                    drop(guards.remove(0));
                }
                'L' if !guards.is_empty() => {
                    drop(guards.pop());
                }
                'P' if !writer && readers == 0 => {
                    poison(l);
                    set_poisoned = true;
                }
                _ => {}
            }));
            if set_poisoned {
                poisoned = true;
            }
            if r.is_err() {
                e.fail("guard_drop_panics", &format!("operation {} panicked at {}: {:?}", c, ctx(), e.panics().last()));
            }
        }
        // all guards dropped: the lock must be free again
        let r = std::panic::catch_unwind(std::panic::AssertUnwindSafe(|| {
            while let Some(g) = guards.pop() {
                drop(g);
            }
        }));
        if r.is_err() {
            e.fail("guard_drop_panics", &format!("dropping the remaining guards panicked after sequence {}: {:?}", seq, e.panics().last()));
        }
        match l.try_write() {
            Ok(_) => {}
            Err(TryLockError::Poisoned(_)) if poisoned => {}
            Err(TryLockError::Poisoned(_)) => e.fail("poisoned", &format!("poisoned without a panic after sequence {}", seq)),
            Err(TryLockError::WouldBlock) => e.fail("not_released", &format!("all guards dropped but try_write() says WouldBlock after sequence {}", seq)),
        }
        count += 1;
        let mut k = depth;
        loop {
            if k == 0 {
                e.count(count);
                e.note(&format!("sequences={}", count));
                return;
            }
            k -= 1;
            idx[k] += 1;
            if idx[k] < alphabet.len() {
                break;
            }
            idx[k] = 0;
        }
    }
}

fn mk(workers: usize, poisoned: bool, parts: &'static [(char, &'static str)], main_ops: &'static str, cancel: Option<usize>) -> Scenario {
    let name = format!(
        "rwlock.{}{}.main{}{}{}",
        if poisoned { "poisoned." } else { "" },
        parts_name(parts),
        main_ops,
        if needs_rt(parts) { format!(".w{}", workers) } else { String::new() },
        cancel.map(|c| format!(".cancel{}", c)).unwrap_or_default()
    );
    let s = Scenario::new("C12", "rwlock", name, Arc::new(move |e| run(e, workers, poisoned, parts, main_ops, cancel)));
    if needs_rt(parts) {
        s
    } else {
        s.fine()
    }
}

/// store-buffer member: a thread holds the write lock, the coroutine W queues up (as writer or as first reader) and is
/// cancelled; the holder unlocks in the instant in which W has registered its release
pub fn handoff_vs_cancel(e: &'static Engine, workers: usize, reader: bool) {
    rt_init(workers);
    let l: &'static RwLock<u32> = Box::leak(Box::new(RwLock::new(0)));
    static HELD: AtomicBool = AtomicBool::new(false);
    e.begin();
    let u = e.spawn("holder", move || {
        let g = l.write().unwrap();
        HELD.store(true, Ordering::SeqCst);
        e.wait_label("syncblocker.set_release");
        drop(g);
    });
    e.wait_flag(&HELD);
    let w = go!(move || {
        if reader {
            let _g = l.read().unwrap();
        } else {
            let _g = l.write().unwrap();
        }
    });
    e.quiesce();
    unsafe { w.coroutine().cancel() };
    let rw = w.join();
    e.join(u);
    probe(e, l);
    e.note(&format!("w={} store_buffer={}", if rw.is_ok() { "ok" } else { "cancel" }, e.tso_used()));
}

/// the drop of a read guard finds the reader mutex held (another reader is held, by a breakpoint, inside the reader-count
/// critical section of read()) and its coroutine is cancelled while it waits there; the other reader is then let go, so
/// that the hand-off of the reader mutex meets the wake-up of the cancel
fn read_drop_cancelled(e: &'static Engine, workers: usize) {
    rt_init(workers);
    let l: &'static RwLock<u32> = Box::leak(Box::new(RwLock::new(0)));
    let sem: &'static may::sync::Semphore = Box::leak(Box::new(may::sync::Semphore::new(0)));
    e.begin();
    let a = go!(move || {
        let g = l.read().unwrap();
        sem.wait();
        drop(g);
        // a cancellable call
        may::coroutine::sleep(std::time::Duration::from_millis(1));
    });
    // A holds its read guard and waits for the permit
    e.quiesce();
    let bp = e.break_at("rwlock.read.counting");
    let b = e.spawn("reader", move || {
        let g = l.read().unwrap();
        enter_r();
        leave_r();
        drop(g);
    });
    e.wait_hit(bp);
    sem.post();
    // A is queued on the reader mutex, inside the drop of its guard
    e.quiesce();
    unsafe { a.coroutine().cancel() };
    e.release(bp);
    let ra = a.join();
    if let Err(p) = &ra {
        if p.downcast_ref::<generator::Error>().is_none() {
            e.fail("unexpected_panic", "the cancelled reader ended with a panic that is not Cancel");
        }
    }
    e.join(b);
    probe(e, l);
    e.note(&format!("a={}", if ra.is_ok() { "ok" } else { "cancel" }));
}

pub fn build(quick: bool) -> Vec<Scenario> {
    let mut v = vec![];
    // the first-grab branch of the global lock (writers; see c05::first_grab)
    for w in [1usize, 2] {
        for (bt, ch) in [(true, false), (false, false), (true, true), (false, true)] {
            // (two coroutines held at breakpoints keep two workers busy)
            if w == 1 && !bt {
                continue;
            }
            v.push(
                Scenario::new("C12", "rwlock_first_grab", format!("rwlock.first_grab.{}{}.w{}", if bt { "CT" } else { "CC" }, if ch { ".head_cancelled" } else { "" }, w), Arc::new(move |e| super::c05::first_grab(e, w, true, bt, ch)))
                    .vt_horizon(100_000_000)
                    .bound(2),
            );
        }
    }
    for w in [1usize, 2] {
        for parts in [&[('C', "W")][..], &[('C', "R")], &[('C', "W"), ('C', "W")], &[('C', "R"), ('C', "R")], &[('C', "W"), ('T', "R")]] {
            let parts: &'static [(char, &'static str)] = parts;
            v.push(Scenario::new("C12", "rwlock_held", format!("rwlock.held.{}.w{}.cancel0", parts_name(parts), w), Arc::new(move |e| run_held(e, w, parts, 0))).tier(quick));
        }
    }
    for w in [1usize, 2] {
        v.push(Scenario::new("C12", "rwlock_read_drop_cancelled", format!("rwlock.read_guard_drop_cancelled.reader_mutex_held.w{}", w), Arc::new(move |e| read_drop_cancelled(e, w))).bound(2));
    }
    for w in [1usize, 2] {
        v.push(Scenario::new("C12", "rwlock_store_buffer", format!("rwlock.handoff_vs_cancel.writer.store_buffer.w{}", w), Arc::new(move |e| handoff_vs_cancel(e, w, false))).tso(&["src/sync/blocking.rs"]).bound(2));
    }
    v.push(Scenario::new("C12", "rwlock_store_buffer", "rwlock.handoff_vs_cancel.reader.store_buffer.w1", Arc::new(move |e| handoff_vs_cancel(e, 1, true))).tso(&["src/sync/blocking.rs"]).bound(2));
    for p in [false, true] {
        v.push(mk(1, p, &[('T', "R")], "W", None));
        v.push(mk(1, p, &[('T', "W")], "W", None));
        v.push(mk(1, p, &[('T', "R"), ('T', "R")], "W", None));
        v.push(mk(1, p, &[('T', "w")], "rW", None));
        v.push(mk(1, p, &[('T', "r")], "w", None));
        for w in [1usize, 2] {
            v.push(mk(w, p, &[('C', "R"), ('C', "W")], "", None));
            v.push(mk(w, p, &[('C', "W")], "W", None));
            v.push(mk(w, p, &[('C', "R"), ('C', "R")], "W", None));
            v.push(mk(w, p, &[('C', "w"), ('C', "r")], "W", None));
        }
    }
    for w in [1usize, 2] {
        v.push(mk(w, false, &[('C', "W"), ('C', "W")], "W", Some(0)));
        v.push(mk(w, false, &[('C', "R"), ('C', "W")], "W", Some(0)));
        v.push(mk(w, false, &[('C', "R"), ('C', "R")], "W", Some(0)));
        v.push(mk(w, false, &[('C', "R"), ('C', "W")], "R", Some(1)));
    }
    if !quick {
        v.push(mk(2, false, &[('C', "R"), ('C', "W"), ('C', "R")], "W", Some(1)));
        v.push(mk(2, true, &[('C', "W"), ('C', "r"), ('C', "w")], "R", None));
    }
    let mut v: Vec<Scenario> = v.into_iter().map(|s| s.tier(quick)).collect();
    let depth = if quick { 5 } else { 7 };
    v.push(Scenario::new("C12", "sweep", format!("rwlock.sweep.depth{}", depth), Arc::new(move |e| sweep(e, depth))).sequential().bound(0).horizon(u64::MAX));
    v
}
