//! C02 - park/unpark never loses a wake-up, in coroutines and in threads
use crate::engine::Engine;
use crate::explore::Scenario;
use crate::util::*;
use may::coroutine;
use may::sync::Blocker;
use may::coroutine::ParkError;
use std::sync::atomic::{AtomicBool, AtomicU64, Ordering};
use std::sync::{Arc, Mutex};
use std::time::Duration;

#[allow(clippy::declare_interior_mutable_const)]
const ZB: AtomicBool = AtomicBool::new(false);
static RET: [AtomicBool; 8] = [ZB; 8];
static READY: AtomicBool = AtomicBool::new(false);
static SLOT: Mutex<Option<Arc<Blocker>>> = Mutex::new(None);
static DT: AtomicU64 = AtomicU64::new(0);

const MS: u64 = 1_000_000;

/// a thread parks `k` times on one Blocker; unpark i is issued after park i-1 returned
fn thread_blocker(e: &'static Engine, k: usize, first_timeout: bool) {
    let b = Blocker::current();
    e.begin();
    for i in 0..k {
        let b = b.clone();
        e.spawn("unparker", move || {
            if i > 0 {
                e.wait_flag(&RET[i - 1]);
            }
            b.unpark();
        });
    }
    let mut out = String::new();
    for i in 0..k {
        let t0 = e.now();
        let r = if i == 0 && first_timeout { b.park(Some(Duration::from_millis(1))) } else { b.park(None) };
        let dt = e.now() - t0;
        match r {
            Ok(()) => out.push_str("ok "),
            Err(ParkError::Timeout) => {
                if !(i == 0 && first_timeout) || dt < MS {
                    e.fail("timeout_early", &format!("park {} reported Timeout after {} ns", i, dt));
                }
                // the unpark of this round may have been consumed together with the timeout or is still
                // to come; either way the next round has its own unpark
                out.push_str("timeout ");
            }
            Err(ParkError::Canceled) => e.fail("canceled_thread", "a thread park reported Canceled"),
        }
        RET[i].store(true, Ordering::SeqCst);
    }
    e.join_all();
    e.note(&out);
}

/// coroutine C parks `k` times through coroutine::park / park_timeout; unpark i comes after park i-1 returned
fn co_park(e: &'static Engine, workers: usize, k: usize, timeout_ms: u64, co_unparker: bool, parked_first: bool) {
    rt_init(workers);
    e.begin();
    let c = go!(move || {
        for i in 0..k {
            let t0 = may::verif::now();
            // announce the park: with `parked_first` the unparker only starts once the parker is on its way in
            READY.store(true, Ordering::SeqCst);
            if timeout_ms == 0 {
                coroutine::park();
            } else {
                coroutine::park_timeout(Duration::from_millis(timeout_ms));
            }
            DT.fetch_max(may::verif::now() - t0, Ordering::SeqCst);
            RET[i].store(true, Ordering::SeqCst);
        }
    });
    let target = c.coroutine().clone();
    if parked_first {
        e.wait_flag(&READY);
    }
    if co_unparker {
        // the first unpark comes from another coroutine
        let t = target.clone();
        let u = go!(move || t.unpark());
        u.join().unwrap();
    } else {
        target.unpark();
    }
    for i in 1..k {
        e.wait_flag(&RET[i - 1]);
        target.unpark();
    }
    c.join().unwrap();
    let dt = DT.load(Ordering::SeqCst);
    if timeout_ms != 0 && !e.t2_used() && dt != 0 {
        e.fail("unpark_lost", &format!("an unparked park_timeout({} ms) only returned after {} ns of virtual time", timeout_ms, dt));
    }
    e.note(&format!("maxwait={}", dt));
}

#[derive(Clone, Copy, PartialEq, Debug)]
enum Partner {
    Unpark,
    Nothing,
    Cancel,
    UnparkAndCancel,
}

/// a coroutine parks on a fresh Blocker (what every primitive does)
fn fresh_blocker(e: &'static Engine, workers: usize, timeout_ns: u64, ignore_cancel: bool, partner: Partner) {
    let timeout = timeout_ns > 0;
    rt_init(workers);
    e.begin();
    let c = go!(move || {
        let b = Arc::new(Blocker::new(ignore_cancel));
        *SLOT.lock().unwrap_or_else(|e| e.into_inner()) = Some(b.clone());
        READY.store(true, Ordering::SeqCst);
        let t0 = may::verif::now();
        let r = match std::panic::catch_unwind(std::panic::AssertUnwindSafe(|| b.park(if timeout { Some(Duration::from_nanos(timeout_ns)) } else { None }))) {
            Ok(r) => r,
            Err(p) => {
                // park itself raised a panic (the Cancel panic unless ignore_cancel is set)
                RET[7].store(true, Ordering::SeqCst);
                std::panic::resume_unwind(p)
            }
        };
        DT.store(may::verif::now() - t0, Ordering::SeqCst);
        match r {
            Ok(()) => 0u32,
            Err(ParkError::Timeout) => 1,
            Err(ParkError::Canceled) => 2,
        }
    });
    let mut cancelled = false;
    match partner {
        Partner::Nothing => {}
        Partner::Unpark | Partner::UnparkAndCancel => {
            e.wait_flag(&READY);
            let b = SLOT.lock().unwrap_or_else(|e| e.into_inner()).take().unwrap();
            b.unpark();
            if partner == Partner::UnparkAndCancel {
                cancelled = true;
                unsafe { c.coroutine().cancel() };
            }
        }
        Partner::Cancel => {
            cancelled = true;
            unsafe { c.coroutine().cancel() };
        }
    }
    let r = c.join();
    let dt = DT.load(Ordering::SeqCst);
    let out = match r {
        Ok(0) => {
            if !matches!(partner, Partner::Unpark | Partner::UnparkAndCancel) {
                e.fail("spurious_ok", "park on a fresh Blocker returned Ok but nobody unparked it");
            }
            "ok"
        }
        Ok(1) => {
            if !timeout || dt < timeout_ns {
                e.fail("timeout_early", &format!("fresh Blocker park reported Timeout after {} ns (timeout: {} ns)", dt, timeout_ns));
            }
            if matches!(partner, Partner::Unpark | Partner::UnparkAndCancel) && !e.t2_used() {
                e.fail("unpark_lost", "park reported Timeout although unpark was called at virtual time 0");
            }
            "timeout"
        }
        Ok(2) => {
            if !cancelled {
                e.fail("canceled_unasked", "park reported Canceled but cancel() was never called");
            }
            "canceled"
        }
        Ok(_) => unreachable!(),
        Err(p) => {
            if p.downcast_ref::<generator::Error>().is_none() || !cancelled {
                e.fail("unexpected_panic", "the parking coroutine panicked");
            }
            if ignore_cancel && RET[7].load(Ordering::SeqCst) {
                // with ignore_cancel the park itself must not raise the Cancel panic (a later cancellation
                // point, e.g. the drop of the Blocker, may)
                e.fail("cancel_not_ignored", "Blocker::new(true).park raised the Cancel panic");
            }
            "cancel_panic"
        }
    };
    e.note(out);
}

/// the parker is detached: the only handle is the one the waker uses, and it is dropped right after the wake-up
/// (`cancel`: the wake-up is a cancel). If the wake-up lands between the parker's look at its token and its registration,
/// the worker resumes the coroutine inline, it runs to its end, and its stack, its Park included, is destroyed right
/// there. The worker must survive that: a second coroutine is run afterwards.
pub fn detached_parker(e: &'static Engine, workers: usize, cancel: bool, parks: usize) {
    use std::sync::atomic::AtomicBool;
    rt_init(workers);
    static READY: AtomicBool = AtomicBool::new(false);
    static DONE: AtomicBool = AtomicBool::new(false);
    struct SetOnDrop;
    impl Drop for SetOnDrop {
        fn drop(&mut self) {
            DONE.store(true, Ordering::SeqCst);
        }
    }
    e.begin();
    let h = go!(move || {
        let _d = SetOnDrop;
        READY.store(true, Ordering::SeqCst);
        for _ in 0..parks {
            coroutine::park();
        }
    });
    let co = h.coroutine().clone();
    drop(h);
    e.wait_flag(&READY);
    for _ in 0..parks {
        if cancel {
            unsafe { co.cancel() };
            break;
        }
        co.unpark();
        if parks > 1 {
            e.quiesce();
        }
    }
    drop(co);
    e.wait_flag(&DONE);
    // every worker is still able to run coroutines
    let hs: Vec<_> = (0..workers + 1).map(|i| go!(move || i)).collect();
    for (i, h) in hs.into_iter().enumerate() {
        if h.join().ok() != Some(i) {
            e.fail("worker_lost", "a coroutine spawned after the detached parker finished did not run");
        }
    }
    e.quiesce();
    e.note(if cancel { "cancelled" } else { "unparked" });
}

fn sc(name: String, f: impl Fn(&'static Engine) + Send + Sync + 'static) -> Scenario {
    Scenario::new("C02", "park", name, Arc::new(f))
}

pub fn build(quick: bool) -> Vec<Scenario> {
    let mut v = vec![];
    let (d, dmax, budget) = if quick { (2, 4, 2500) } else { (3, 5, 60_000) };
    // component: ThreadPark through Blocker
    for k in [1usize, 2, 3] {
        v.push(sc(format!("thread.blocker.k{}", k), move |e| thread_blocker(e, k, false)).fine().bound(d + 1).deepen(dmax + 1, budget));
    }
    v.push(sc("thread.blocker.k2.timeout".into(), move |e| thread_blocker(e, 2, true)).fine().t2().bound(d).deepen(dmax, budget));
    // coroutine::park / park_timeout
    for w in [1usize, 2] {
        for k in [1usize, 2] {
            v.push(sc(format!("co.park.k{}.w{}", k, w), move |e| co_park(e, w, k, 0, false, false)).bound(d).deepen(dmax, budget));
        }
        v.push(sc(format!("co.park.k2.w{}.parked_first", w), move |e| co_park(e, w, 2, 0, false, true)).bound(d).deepen(dmax, budget));
        v.push(sc(format!("co.park.k3.w{}.parked_first", w), move |e| co_park(e, w, 3, 0, false, true)).bound(d).deepen(dmax, budget));
        v.push(sc(format!("co.park.k2.w{}.co_unparker", w), move |e| co_park(e, w, 2, 0, true, false)).bound(d).deepen(dmax, budget));
        v.push(sc(format!("co.park_timeout10.k2.w{}", w), move |e| co_park(e, w, 2, 10, false, false)).t2().bound(d).deepen(dmax, budget));
    }
    // the timer is the third party that resumes a parked coroutine: its own wake-up hand-shake (an adder that becomes the
    // head of a list wakes the timer thread, which registers its handle, looks at the lists and goes to sleep) is driven
    // on the real TimerThread (the component family of C08), here for the members in which an add races with the
    // timer thread's scan / registration
    for adders in [&["22"][..], &["2", "2"], &["2", "s2"]] {
        let adders: &'static [&'static str] = adders;
        v.push(Scenario::new("C02", "timer_waker", format!("timer_waker.timerlist.{}", adders.join("_")), Arc::new(move |e| super::c08::timer_list(e, adders))).fine().t2().vt_horizon(100_000_000).tier(quick));
    }
    for w in [1usize, 2] {
        v.push(sc(format!("co.park.detached.w{}", w), move |e| detached_parker(e, w, false, 1)).bound(d));
        v.push(sc(format!("co.park.detached.twice.w{}", w), move |e| detached_parker(e, w, false, 2)).bound(d));
    }
    if !quick {
        v.push(sc("co.park.k3.w2".into(), move |e| co_park(e, 2, 3, 0, false, false)).bound(2).deepen(3, budget));
        v.push(sc("co.park.k2.w1.fine".into(), move |e| co_park(e, 1, 2, 0, false, false)).fine().bound(2));
        v.push(sc("co.park.k2.w2.desc".into(), move |e| co_park(e, 2, 2, 0, false, false)).desc().bound(2).deepen(3, budget));
    }
    // fresh Blocker
    for w in [1usize, 2] {
        for (timeout, ign, partner) in [
            (false, false, Partner::Unpark),
            (true, false, Partner::Unpark),
            (true, false, Partner::Nothing),
            (false, true, Partner::Cancel),
            (true, true, Partner::Cancel),
            (false, false, Partner::Cancel),
            (false, true, Partner::UnparkAndCancel),
        ] {
            if w == 2 && quick && matches!(partner, Partner::Nothing) {
                continue;
            }
            let s = sc(format!("co.fresh.{}{}.{:?}.w{}", if timeout { "t1ms" } else { "notimeout" }, if ign { ".ignore_cancel" } else { "" }, partner, w), move |e| {
                fresh_blocker(e, w, if timeout { MS } else { 0 }, ign, partner)
            })
            .bound(d)
            .deepen(dmax, budget);
            v.push(if timeout { s.t2() } else { s });
        }
        // "Canceled only for a cancelled coroutine": the parker is a new coroutine on a pooled stack whose previous occupant
        // was cancelled (in three ways); its park on a fresh Blocker, ended by a plain unpark, must return Ok
        if w == 1 {
            use super::c15::{fresh_start, End, Prev};
            for prev in [Prev::CancelledParked, Prev::CancelledYieldingDrop, Prev::PanickedCancelPendingYieldingDrop] {
                v.push(sc(format!("co.fresh.on_reused_stack.after_{:?}.w1", prev).to_lowercase(), move |e| fresh_start(e, prev, 1, false, End::Returns)).tier(quick));
            }
        }
        // timeouts that are not a whole number of milliseconds: never reported before the deadline
        for ns in [1_500_000u64, 999_999, 1_000_001, 1] {
            v.push(sc(format!("co.fresh.t{}ns.Nothing.w{}", ns, w), move |e| fresh_blocker(e, w, ns, false, Partner::Nothing)).bound(1).t2());
        }
    }
    v
}
