//! C08 - timed waits never fire early, never hang, fire promptly - for every duration
use crate::engine::Engine;
use crate::explore::Scenario;
use crate::util::*;
use may::coroutine;
use may::sync::{mpmc, mpsc, Blocker, Condvar, Mutex, Semphore, SyncFlag};
use may::verif::TimerThread;
use std::sync::atomic::{AtomicU64, Ordering};
use std::sync::{Arc, Mutex as StdMutex};
use std::time::Duration;

const MS: u64 = 1_000_000;

#[derive(Clone, Copy, PartialEq, Debug)]
pub enum Api {
    Sleep,
    ParkTimeout,
    BlockerPark,
    MpscRecvTimeout,
    MpmcRecvTimeout,
    SemWaitTimeout,
    FlagWaitTimeout,
    CondvarWaitTimeout,
    CqueuePoll,
}

/// call the timed API with nothing to wait for; returns (timed_out_reported, may_return_early)
fn timed_call(api: Api, d: Duration) -> (bool, bool) {
    match api {
        Api::Sleep => {
            coroutine::sleep(d);
            (true, false)
        }
        Api::ParkTimeout => {
            coroutine::park_timeout(d);
            // may wake spuriously, only "does return" is checked
            (true, true)
        }
        Api::BlockerPark => {
            let b = Blocker::current();
            (b.park(Some(d)).is_err(), false)
        }
        Api::MpscRecvTimeout => {
            let (_tx, rx) = mpsc::channel::<u32>();
            (rx.recv_timeout(d).is_err(), false)
        }
        Api::MpmcRecvTimeout => {
            let (_tx, rx) = mpmc::channel::<u32>();
            (rx.recv_timeout(d).is_err(), false)
        }
        Api::SemWaitTimeout => {
            let s = Semphore::new(0);
            (!s.wait_timeout(d), false)
        }
        Api::FlagWaitTimeout => {
            let f = SyncFlag::new();
            (!f.wait_timeout(d), false)
        }
        Api::CondvarWaitTimeout => {
            let m = Mutex::new(0u32);
            let cv = Condvar::new();
            let g = m.lock().unwrap_or_else(|e| e.into_inner());
            let (_g, r) = cv.wait_timeout(g, d).unwrap();
            (r.timed_out(), false)
        }
        Api::CqueuePoll => {
            let mut to = false;
            may::cqueue::scope(|cq| {
                // one arm that never produces an event within the horizon
                go!(cq, 0, |es| {
                    coroutine::sleep(Duration::from_secs(3600));
                    es.send(0);
                });
                to = matches!(cq.poll(Some(d)), Err(may::cqueue::PollError::Timeout));
            });
            (to, false)
        }
    }
}

/// pure timeout: nothing ever arrives. The call must return, report the timeout, not before `d` and
/// (when no clock deviation was injected) not later than d + 1 ms
fn sweep_member(e: &'static Engine, api: Api, in_coroutine: bool, d_ns: u64) {
    rt_init(1);
    let d = Duration::from_nanos(d_ns);
    e.begin();
    let (to, early_ok, dt) = if in_coroutine {
        let h = go!(move || {
            let t0 = may::verif::now();
            let (to, early_ok) = timed_call(api, d);
            (to, early_ok, may::verif::now() - t0)
        });
        match h.join() {
            Ok(r) => r,
            Err(_) => e.fail("unexpected_panic", "the timed call panicked"),
        }
    } else {
        let t0 = e.now();
        let (to, early_ok) = timed_call(api, d);
        (to, early_ok, e.now() - t0)
    };
    if !to {
        e.fail("event_without_event", &format!("{:?}({} ns) reported its event although nothing happened", api, d_ns));
    }
    if dt < d_ns && !early_ok {
        e.fail("fired_early", &format!("{:?}({} ns) returned after only {} ns", api, d_ns, dt));
    }
    if !e.t2_used() && dt > d_ns + MS {
        e.fail("fired_late", &format!("{:?}({} ns) returned after {} ns although nothing delayed it", api, d_ns, dt));
    }
    e.note(&format!("dt={}", dt));
}

/// the event arrives at `at_ns` (virtual), the wait has timeout `d_ns`
fn event_member(e: &'static Engine, api: Api, d_ns: u64, at_ns: u64) {
    rt_init(2);
    e.begin();
    static DT: AtomicU64 = AtomicU64::new(0);
    static RET_ABS: AtomicU64 = AtomicU64::new(0);
    static EV_ABS: AtomicU64 = AtomicU64::new(0);
    let d = Duration::from_nanos(d_ns);
    let sem = Arc::new(Semphore::new(0));
    let (tx, rx) = mpsc::channel::<u32>();
    let s2 = sem.clone();
    let h = go!(move || {
        let t0 = may::verif::now();
        let got = match api {
            Api::SemWaitTimeout => s2.wait_timeout(d),
            Api::MpscRecvTimeout => rx.recv_timeout(d).is_ok(),
            _ => unreachable!(),
        };
        let t1 = may::verif::now();
        DT.store(t1 - t0, Ordering::SeqCst);
        RET_ABS.store(t1, Ordering::SeqCst);
        got
    });
    let ev = go!(move || {
        coroutine::sleep(Duration::from_nanos(at_ns));
        EV_ABS.store(may::verif::now(), Ordering::SeqCst);
        match api {
            Api::SemWaitTimeout => sem.post(),
            _ => {
                let _ = tx.send(1);
            }
        }
    });
    let got = h.join().unwrap_or_else(|_| e.fail("unexpected_panic", "the waiter panicked"));
    ev.join().ok();
    let dt = DT.load(Ordering::SeqCst);
    if !got && dt < d_ns {
        e.fail("fired_early", &format!("{:?}({} ns) timed out after only {} ns", api, d_ns, dt));
    }
    // (absolute stamps of the one virtual clock: with clock deviations the waiter may only start after the event)
    let (ret_abs, ev_abs) = (RET_ABS.load(Ordering::SeqCst), EV_ABS.load(Ordering::SeqCst));
    if got && (ev_abs == 0 || ret_abs < ev_abs) {
        e.fail("event_before_event", &format!("the wait returned its event at {} ns but the event only happened at {} ns (0 = never)", ret_abs, ev_abs));
    }
    if !got && at_ns + MS < d_ns && !e.t2_used() {
        e.fail("event_missed", &format!("the event happened at {} ns, well before the timeout of {} ns, but the wait reported a timeout", at_ns, d_ns));
    }
    if !e.t2_used() && dt > d_ns.max(at_ns) + MS {
        e.fail("fired_late", &format!("returned after {} ns (timeout {} ns, event at {} ns)", dt, d_ns, at_ns));
    }
    e.note(&format!("got={} dt={}", got, dt));
}

/// timer list component: adders on `threads` harness threads, the timer thread is a harness thread too.
/// ops per adder: digits = add a timer with that many half-milliseconds (0 => 0 ns), 'd' delete the adder's last timer
pub(crate) fn timer_list(e: &'static Engine, adders: &'static [&'static str]) {
    timer_list_prefilled(e, adders, 0)
}

/// `prefill`: that many timers with pairwise different, far away deadlines are pending when the window opens, so that the
/// list keeps more interval lists than it wants to (HASH_CAP = 1024) and drops every list that runs empty
fn timer_list_prefilled(e: &'static Engine, adders: &'static [&'static str], prefill: usize) {
    let tt: &'static TimerThread<usize> = Box::leak(Box::new(TimerThread::new()));
    for i in 0..prefill {
        std::mem::forget(tt.add_timer(Duration::from_nanos(3_600_000_000_000 + 1_000 * i as u64), 900_000 + i));
    }
    let fired: &'static StdMutex<Vec<(usize, u64)>> = Box::leak(Box::new(StdMutex::new(vec![])));
    // data = adder * 100 + index; deadlines recorded by the adders
    let due: &'static StdMutex<Vec<(usize, u64, bool)>> = Box::leak(Box::new(StdMutex::new(vec![])));
    e.spawn("timer", move || {
        let f = move |data: usize| {
            let now = may::verif::now();
            fired.lock().unwrap_or_else(|e| e.into_inner()).push((data, now));
        };
        tt.run(&f);
    });
    e.begin();
    let mut tids = vec![];
    for (a, ops) in adders.iter().enumerate() {
        tids.push(e.spawn("adder", move || {
            let mut last: Option<(may::verif::TimeoutHandle<usize>, usize)> = None;
            for (k, o) in ops.chars().enumerate() {
                match o {
                    's' => e.vsleep(MS),
                    'r' => {
                        // what EventData::fast_schedule does on whatever worker runs the socket's subscribe: unlink the
                        // entry directly instead of asking the list's consumer thread to do it
                        if let Some((h, data)) = last.take() {
                            let removed = h.remove().is_some();
                            let mut du = due.lock().unwrap_or_else(|e| e.into_inner());
                            if let Some(x) = du.iter_mut().find(|x| x.0 == data) {
                                x.2 = true;
                                let _ = removed;
                            }
                        }
                    }
                    'd' => {
                        if let Some((h, data)) = last.take() {
                            let now = may::verif::now();
                            tt.del_timer(h);
                            let mut du = due.lock().unwrap_or_else(|e| e.into_inner());
                            if let Some(x) = du.iter_mut().find(|x| x.0 == data) {
                                // deleted: it may fire only if it was due already
                                x.2 = true;
                                let _ = now;
                            }
                        }
                    }
                    c => {
                        let half_ms = c.to_digit(10).unwrap() as u64;
                        let dur = Duration::from_nanos(half_ms * MS / 2);
                        let data = a * 100 + k;
                        let now = may::verif::now();
                        due.lock().unwrap_or_else(|e| e.into_inner()).push((data, now + dur.as_nanos() as u64, false));
                        let h = tt.add_timer(dur, data);
                        last = Some((h, data));
                    }
                }
            }
            // keep the last handle alive until the end (dropping it is the consumer's business)
            std::mem::forget(last);
        }));
    }
    for t in tids {
        e.join(t);
    }
    // let everything expire
    e.vsleep(20 * MS);
    e.quiesce();
    let fired = fired.lock().unwrap_or_else(|e| e.into_inner()).clone();
    let due = due.lock().unwrap_or_else(|e| e.into_inner()).clone();
    for (data, deadline, deleted) in due.iter() {
        let f: Vec<&(usize, u64)> = fired.iter().filter(|x| x.0 == *data).collect();
        if f.len() > 1 {
            e.fail("fired_twice", &format!("timer {} fired {} times", data, f.len()));
        }
        match f.first() {
            Some((_, at)) => {
                if at < deadline {
                    e.fail("fired_early", &format!("timer {} fired at {} before its deadline {}", data, at, deadline));
                }
                if !e.t2_used() && *at > deadline + MS {
                    e.fail("fired_late", &format!("timer {} fired at {}, {} ns after its deadline although nothing delayed it", data, at, at - deadline));
                }
            }
            None => {
                if !deleted {
                    e.fail("never_fired", &format!("timer {} (deadline {}) never fired; fired: {:?}", data, deadline, fired));
                }
            }
        }
    }
    e.note(&format!("fired={}", fired.len()));
}

/// many distinct intervals: `n` timers with pairwise different durations (1 us apart), added by one thread, all left to
/// expire; then one more of the first duration. Every one fires exactly once, none early.
fn many_intervals(e: &'static Engine, n: usize) {
    let tt: &'static TimerThread<usize> = Box::leak(Box::new(TimerThread::new()));
    let fired: &'static StdMutex<Vec<(usize, u64)>> = Box::leak(Box::new(StdMutex::new(vec![])));
    e.spawn("timer", move || {
        let f = move |data: usize| {
            fired.lock().unwrap_or_else(|e| e.into_inner()).push((data, may::verif::now()));
        };
        tt.run(&f);
    });
    e.begin();
    let t0 = may::verif::now();
    let mut due = vec![];
    for i in 0..n {
        let d = Duration::from_nanos(1_000 * (i as u64 + 1));
        due.push(may::verif::now() + d.as_nanos() as u64);
        std::mem::forget(tt.add_timer(d, i));
    }
    e.vsleep(1_000 * (n as u64 + 10));
    e.quiesce();
    let d = Duration::from_nanos(1_000);
    due.push(may::verif::now() + 1_000);
    std::mem::forget(tt.add_timer(d, n));
    e.vsleep(10_000);
    e.quiesce();
    let f = fired.lock().unwrap_or_else(|e| e.into_inner()).clone();
    for i in 0..=n {
        let mine: Vec<&(usize, u64)> = f.iter().filter(|x| x.0 == i).collect();
        if mine.len() != 1 {
            e.fail("never_fired", &format!("timer {} of {} distinct intervals fired {} times (fired in total: {}, panics: {:?})", i, n, mine.len(), f.len(), e.panics().last()));
        }
        if mine[0].1 < due[i] {
            e.fail("fired_early", &format!("timer {} fired at {} before its deadline {}", i, mine[0].1, due[i]));
        }
    }
    let _ = t0;
    e.count(n as u64 + 1);
    e.note(&format!("fired={}", f.len()));
}

fn name_of(api: Api) -> &'static str {
    match api {
        Api::Sleep => "sleep",
        Api::ParkTimeout => "park_timeout",
        Api::BlockerPark => "blocker_park",
        Api::MpscRecvTimeout => "mpsc_recv_timeout",
        Api::MpmcRecvTimeout => "mpmc_recv_timeout",
        Api::SemWaitTimeout => "sem_wait_timeout",
        Api::FlagWaitTimeout => "flag_wait_timeout",
        Api::CondvarWaitTimeout => "condvar_wait_timeout",
        Api::CqueuePoll => "cqueue_poll",
    }
}

pub fn build(quick: bool) -> Vec<Scenario> {
    let mut v = vec![];
    let apis = [Api::Sleep, Api::ParkTimeout, Api::BlockerPark, Api::MpscRecvTimeout, Api::MpmcRecvTimeout, Api::SemWaitTimeout, Api::FlagWaitTimeout, Api::CondvarWaitTimeout, Api::CqueuePoll];
    let durs: [u64; 7] = [0, 1, 999_999, MS, MS + 1, 3 * MS / 2, 2 * MS];
    for api in apis {
        for co in [true, false] {
            if !co && matches!(api, Api::ParkTimeout) {
                // coroutine::park_timeout is a no-op in thread context
                continue;
            }
            for d in durs {
                let boundary = matches!(d, 999_999 | 1_000_001 | 1_500_000);
                let s = Scenario::new("C08", "api_sweep", format!("sweep.{}.{}.{}ns", name_of(api), if co { "co" } else { "thread" }, d), Arc::new(move |e| sweep_member(e, api, co, d)))
                    .vt_horizon(50 * MS)
                    .horizon(5_000);
                // an input sweep: in thread context a single thread is involved by construction
                let s = if co { s } else { s.sequential() };
                let s = if quick { s.bound(if boundary { 1 } else { 0 }).deepen(2, 400) } else { s.bound(2).deepen(3, 20_000) };
                v.push(s);
            }
        }
    }
    // the timer may fire while the waiter is still registering (clock advance with runnable threads + one switch): the
    // time-out must not get lost
    for api in apis {
        if matches!(api, Api::Sleep) {
            continue;
        }
        v.push(
            Scenario::new("C08", "timer_fires_during_subscribe", format!("sweep.{}.co.1000000ns.timer_fires_during_subscribe", name_of(api)), Arc::new(move |e| sweep_member(e, api, true, MS)))
                .t2()
                .vt_horizon(50 * MS)
                .horizon(5_000)
                .bound(2),
        );
    }
    // the event races with the timeout
    for api in [Api::SemWaitTimeout, Api::MpscRecvTimeout] {
        for (d, at) in [(2 * MS, MS), (2 * MS, 2 * MS), (MS, 3 * MS)] {
            v.push(
                Scenario::new("C08", "event_vs_timeout", format!("event.{}.d{}.at{}", name_of(api), d, at), Arc::new(move |e| event_member(e, api, d, at)))
                    .t2()
                    .vt_horizon(50 * MS)
                    .tier(quick),
            );
        }
    }
    // timer list component
    // fine granularity: the entry list (mpsc_list_v1) and the heap bookkeeping are interleaved step by step;
    // 's' = the adder first sleeps 1 ms, so that its add coincides with the expiry of an earlier 1 ms timer
    // more than HASH_CAP (1024) distinct intervals pending: per-interval lists that run empty are dropped and re-created
    for (i, adders) in [&["2d", "2"][..], &["2", "s2"], &["2", "2"], &["22", "s2"], &["2", "s2s2"]].into_iter().enumerate() {
        let adders: &'static [&'static str] = adders;
        if quick && i >= 2 {
            continue;
        }
        v.push(
            Scenario::new("C08", "timer_list_many_intervals", format!("timerlist.{}.1030_intervals_pending", adders.join("_")), Arc::new(move |e| timer_list_prefilled(e, adders, 1030)))
                .fine()
                .t2()
                .vt_horizon(100 * MS)
                .tier(quick),
        );
    }
    for n in [3usize, 1030] {
        v.push(Scenario::new("C08", "many_intervals", format!("timerlist.distinct_intervals.n{}", n), Arc::new(move |e| many_intervals(e, n))).sequential().bound(0).horizon(u64::MAX).vt_horizon(100 * MS));
    }
    if std::env::var_os("MAYVERIF_EXPERIMENT").is_some() {
        for adders in [&["2", "s2r"][..], &["22", "s2r"], &["2", "2r"], &["2", "s2r2"]] {
            let adders: &'static [&'static str] = adders;
            v.push(Scenario::new("C08", "timer_list_foreign_remove", format!("timerlist.foreign_remove.{}", adders.join("_")), Arc::new(move |e| timer_list(e, adders))).fine().t2().vt_horizon(100 * MS).bound(2));
        }
    }
    for adders in [&["22"][..], &["23"], &["2d"], &["32d"], &["2", "2"], &["2", "4"], &["0", "2"], &["2d", "2"], &["24", "2d"], &["2", "s2"], &["2", "s2s2"], &["22", "s2"], &["2", "s4"]] {
        let adders: &'static [&'static str] = adders;
        v.push(Scenario::new("C08", "timer_list", format!("timerlist.{}", adders.join("_")), Arc::new(move |e| timer_list(e, adders))).fine().t2().vt_horizon(100 * MS).tier(quick));
        if adders.iter().any(|a| a.contains('s')) {
            // the same member with the adders ahead of the timer thread in the default schedule: an add that lands inside
            // the timer thread's "list drained" bookkeeping is then two deviations away instead of three
            v.push(Scenario::new("C08", "timer_list", format!("timerlist.{}.adders_first", adders.join("_")), Arc::new(move |e| timer_list(e, adders))).fine().t2().desc().vt_horizon(100 * MS).tier(quick));
        }
    }
    v
}
