//! C15 - coroutine-local storage is private; a fresh coroutine starts clean
use crate::engine::Engine;
use crate::explore::Scenario;
use crate::util::*;
use may::coroutine;
use may::sync::Blocker;
use std::cell::Cell;
use std::sync::atomic::{AtomicBool, AtomicU32, AtomicUsize, Ordering};
use std::sync::{Arc, Mutex};
use std::time::Duration;

static INITS1: AtomicU32 = AtomicU32::new(0);
static INITS2: AtomicU32 = AtomicU32::new(0);
static LOCAL_DROPS: AtomicU32 = AtomicU32::new(0);
static BAD: AtomicU32 = AtomicU32::new(0);
static STACK_ADDR: [AtomicUsize; 2] = [AtomicUsize::new(0), AtomicUsize::new(0)];
static READY: AtomicBool = AtomicBool::new(false);
static SLOT: Mutex<Option<Arc<Blocker>>> = Mutex::new(None);

struct Counted(Cell<u32>);
impl Drop for Counted {
    fn drop(&mut self) {
        LOCAL_DROPS.fetch_add(1, Ordering::SeqCst);
    }
}

coroutine_local!(static K1: Cell<u32> = {
    INITS1.fetch_add(1, Ordering::SeqCst);
    Cell::new(7)
});
coroutine_local!(static K2: Counted = {
    INITS2.fetch_add(1, Ordering::SeqCst);
    Counted(Cell::new(70))
});

/// `n` coroutines set / yield / get both keys `rounds` times; the main thread uses the keys in thread context
/// `timed`: the coroutines sleep (1 ms) or let a park time out instead of yielding, so that they continue on the timer
/// thread - a thread that is not a worker - until their next yield
/// `stacks`: how coroutine i is spawned - 0 = go! (pooled default stack), otherwise Builder::stack_size(that many bytes)
/// (a stack of its own size is not pooled: the coroutine's storage is freed on another path), odd entries also named;
/// the ends differ too: coroutine 1 panics at the end, coroutine 2 is cancelled in a final park
fn privacy_spawn_kinds(e: &'static Engine, workers: usize, stacks: &'static [usize]) {
    rt_init(workers);
    static PARKED: AtomicBool = AtomicBool::new(false);
    e.begin();
    let n = stacks.len();
    let mut hs = vec![];
    for (i, sz) in stacks.iter().enumerate() {
        let body = move || {
            let id = 100 + i as u32;
            if K1.with(|c| c.get()) != 7 || K2.with(|c| c.0.get()) != 70 {
                BAD.fetch_add(1, Ordering::SeqCst);
            }
            K1.with(|c| c.set(id));
            K2.with(|c| c.0.set(id * 2));
            coroutine::yield_now();
            if K1.with(|c| c.get()) != id || K2.with(|c| c.0.get()) != id * 2 {
                BAD.fetch_add(1, Ordering::SeqCst);
            }
            match i {
                1 => std::panic::panic_any(OwnPayload(1)),
                2 => {
                    PARKED.store(true, Ordering::SeqCst);
                    loop {
                        coroutine::park();
                    }
                }
                _ => {}
            }
        };
        let h = if *sz == 0 {
            go!(body)
        } else {
            let b = coroutine::Builder::new().stack_size(*sz);
            let b = if i % 2 == 1 { b.name(format!("named{}", i)) } else { b };
            unsafe { b.spawn(body) }.expect("spawn")
        };
        hs.push(h);
    }
    if n > 2 {
        e.wait_flag(&PARKED);
        e.quiesce();
        unsafe { hs[2].coroutine().cancel() };
    }
    for (i, h) in hs.into_iter().enumerate() {
        match (i, h.join()) {
            (1, Err(p)) if p.downcast_ref::<OwnPayload>().is_some() => {}
            (2, Err(p)) if p.downcast_ref::<generator::Error>().is_some() => {}
            (1, _) | (2, _) => e.fail("join_result", &format!("coroutine {} did not end the way it was made to", i)),
            (_, Ok(())) => {}
            (_, Err(_)) => e.fail("unexpected_panic", "a coroutine panicked"),
        }
    }
    e.quiesce();
    if BAD.load(Ordering::SeqCst) != 0 {
        e.fail("local_private", "a coroutine saw a local value it did not write (or not the initial value first)");
    }
    let (i1, i2, d) = (INITS1.load(Ordering::SeqCst), INITS2.load(Ordering::SeqCst), LOCAL_DROPS.load(Ordering::SeqCst));
    if i1 != n as u32 || i2 != n as u32 {
        e.fail("init_once", &format!("initialisers ran {} / {} times for {} coroutines", i1, i2, n));
    }
    if d != n as u32 {
        e.fail("local_dropped_once", &format!("{} local values dropped after {} coroutines ended (stack sizes {:?}, 0 = default)", d, n, stacks));
    }
    e.note(&format!("inits={}/{} drops={}", i1, i2, d));
}

fn privacy(e: &'static Engine, workers: usize, n: usize, rounds: usize, timed: bool) {
    rt_init(workers);
    e.begin();
    let mut hs = vec![];
    for i in 0..n {
        hs.push(go!(move || {
            let id = 100 + i as u32;
            if K1.with(|c| c.get()) != 7 || K2.with(|c| c.0.get()) != 70 {
                BAD.fetch_add(1, Ordering::SeqCst);
            }
            for r in 0..rounds as u32 {
                K1.with(|c| c.set(id + r));
                K2.with(|c| c.0.set(id * 2 + r));
                if !timed {
                    coroutine::yield_now();
                } else if r % 2 == 0 {
                    coroutine::sleep(Duration::from_millis(1));
                } else {
                    coroutine::park_timeout(Duration::from_millis(1));
                }
                if K1.with(|c| c.get()) != id + r || K2.with(|c| c.0.get()) != id * 2 + r {
                    BAD.fetch_add(1, Ordering::SeqCst);
                }
            }
        }));
    }
    // thread context: falls back to a per-thread value
    K1.with(|c| c.set(1));
    for h in hs {
        if h.join().is_err() {
            e.fail("unexpected_panic", "a coroutine panicked");
        }
    }
    if K1.with(|c| c.get()) != 1 {
        e.fail("thread_fallback", "the per-thread value was changed by a coroutine");
    }
    // the local storage is destroyed by the worker after the join was triggered: wait until the runtime is idle
    e.quiesce();
    if BAD.load(Ordering::SeqCst) != 0 {
        e.fail("local_private", "a coroutine saw a local value it did not write (or not the initial value first)");
    }
    let (i1, i2, d) = (INITS1.load(Ordering::SeqCst), INITS2.load(Ordering::SeqCst), LOCAL_DROPS.load(Ordering::SeqCst));
    // n coroutines + the main thread for K1
    if i1 != n as u32 + 1 || i2 != n as u32 {
        e.fail("init_once", &format!("initialisers ran {} / {} times for {} coroutines (+1 thread for the first key)", i1, i2, n));
    }
    if d != n as u32 {
        e.fail("local_dropped_once", &format!("{} local values dropped after {} coroutines ended", d, n));
    }
    e.note(&format!("inits={}/{} drops={}", i1, i2, d));
}

#[derive(Clone, Copy, PartialEq, Debug)]
pub enum Prev {
    Returned,
    Panicked,
    CancelledParked,
    CancelledRunnable,
    TimedOutPark,
    TimedOutSleep,
    TimedOutBlocker,
    /// cancelled while parked; a destructor on its stack yields during the unwind
    CancelledYieldingDrop,
    /// park_timeout(1 ms) whose expiry meets an unpark() issued by the main thread at the same instant
    TimedOutParkVsUnpark,
    /// Blocker::park(1 ms) whose expiry meets Blocker::unpark() at the same instant
    TimedOutBlockerVsUnpark,
    /// a cancel request arrives while it is running, then it panics with an ordinary panic; a destructor on its stack
    /// yields during that unwind
    PanickedCancelPendingYieldingDrop,
}

static PREV_RUNNING: AtomicBool = AtomicBool::new(false);
static PREV_GO: AtomicBool = AtomicBool::new(false);

/// how the fresh coroutine ends after its first park returned
#[derive(Clone, Copy, PartialEq, Debug)]
pub enum End {
    Returns,
    /// cancelled while parked: its join must report Cancel and nothing else
    Cancelled,
    /// panics with its own typed payload: its join must deliver exactly that payload
    Panics,
}

#[derive(Debug)]
struct OwnPayload(u32);
static FRESH_PARKED: AtomicBool = AtomicBool::new(false);
static PREV_DONE: AtomicBool = AtomicBool::new(false);

struct SetOnDrop(&'static AtomicBool);
impl Drop for SetOnDrop {
    fn drop(&mut self) {
        self.0.store(true, Ordering::SeqCst);
    }
}

struct YieldOnDrop;
impl Drop for YieldOnDrop {
    fn drop(&mut self) {
        coroutine::yield_now();
    }
}

/// pool capacity 1, one worker: the fresh coroutine F provably reuses the stack of the previous occupant P
/// `detached`: P's JoinHandle is dropped before P runs (nobody collects its result)
pub fn fresh_start(e: &'static Engine, prev: Prev, workers: usize, detached: bool, end: End) {
    rt_init_opts(workers, 1, 0x4000, 3_600_000_000_000);
    e.begin();
    let p = go!(move || {
        let _done = SetOnDrop(&PREV_DONE);
        let marker = 0u8;
        STACK_ADDR[0].store(&marker as *const u8 as usize, Ordering::SeqCst);
        K1.with(|c| c.set(99));
        K2.with(|c| c.0.set(990));
        match prev {
            Prev::Returned => {}
            Prev::Panicked => panic!("previous occupant panics"),
            Prev::CancelledParked => loop {
                coroutine::park();
            },
            Prev::CancelledYieldingDrop => {
                let _g = YieldOnDrop;
                loop {
                    coroutine::park();
                }
            }
            Prev::CancelledRunnable => loop {
                coroutine::yield_now();
            },
            Prev::TimedOutPark => coroutine::park_timeout(Duration::from_millis(1)),
            Prev::TimedOutSleep => coroutine::sleep(Duration::from_millis(1)),
            Prev::TimedOutBlocker => {
                let b = Blocker::current();
                let _ = b.park(Some(Duration::from_millis(1)));
            }
            Prev::PanickedCancelPendingYieldingDrop => {
                let _g = YieldOnDrop;
                PREV_RUNNING.store(true, Ordering::SeqCst);
                // not a yield point: the worker thread itself waits here
                e.wait_flag(&PREV_GO);
                panic!("ordinary panic with a cancel pending");
            }
            Prev::TimedOutParkVsUnpark => coroutine::park_timeout(Duration::from_millis(1)),
            Prev::TimedOutBlockerVsUnpark => {
                let b = Blocker::current();
                *SLOT.lock().unwrap_or_else(|e| e.into_inner()) = Some(b.clone());
                let _ = b.park(Some(Duration::from_millis(1)));
            }
        }
    });
    match prev {
        Prev::PanickedCancelPendingYieldingDrop => {
            e.wait_flag(&PREV_RUNNING);
            unsafe { p.coroutine().cancel() };
            PREV_GO.store(true, Ordering::SeqCst);
        }
        Prev::TimedOutParkVsUnpark => {
            e.vsleep(1_000_000);
            p.coroutine().unpark();
        }
        Prev::TimedOutBlockerVsUnpark => {
            e.vsleep(1_000_000);
            // (the blocker is published before the park; if P has not got there yet the unpark simply comes first)
            if let Some(b) = SLOT.lock().unwrap_or_else(|e| e.into_inner()).take() {
                b.unpark();
            }
        }
        _ => {}
    }
    if matches!(prev, Prev::CancelledParked | Prev::CancelledRunnable | Prev::CancelledYieldingDrop) {
        unsafe { p.coroutine().cancel() };
    }
    if detached {
        drop(p);
        e.wait_flag(&PREV_DONE);
        // the stack goes back to the pool after the closure ended: wait until the runtime is idle
        e.quiesce();
    } else {
        let _ = p.join();
    }
    let f = go!(move || {
        let marker = 0u8;
        STACK_ADDR[1].store(&marker as *const u8 as usize, Ordering::SeqCst);
        let v1 = K1.with(|c| c.get());
        let v2 = K2.with(|c| c.0.get());
        // first blocking call: woken by a plain unpark, it must return Ok (no stale Timeout / Canceled result)
        let b = Blocker::current();
        *SLOT.lock().unwrap_or_else(|e| e.into_inner()) = Some(b.clone());
        READY.store(true, Ordering::SeqCst);
        let r = b.park(None);
        match end {
            End::Returns => {}
            End::Cancelled => {
                FRESH_PARKED.store(true, Ordering::SeqCst);
                loop {
                    coroutine::park();
                }
            }
            End::Panics => std::panic::panic_any(OwnPayload(4242)),
        }
        (v1, v2, r.is_ok())
    });
    e.wait_flag(&READY);
    let b = SLOT.lock().unwrap_or_else(|e| e.into_inner()).take().unwrap();
    b.unpark();
    if end == End::Cancelled {
        e.wait_flag(&FRESH_PARKED);
        unsafe { f.coroutine().cancel() };
    }
    match f.join() {
        Ok(_) if end != End::Returns => e.fail("unexpected_result", "the fresh coroutine was cancelled / panicked but its join returned Ok"),
        Err(p) if end == End::Cancelled => {
            if !matches!(p.downcast_ref::<generator::Error>(), Some(generator::Error::Cancel)) {
                e.fail("stale_result", "the join of the cancelled fresh coroutine delivered a payload that is not Cancel (a leftover of the previous occupant)");
            }
        }
        Err(p) if end == End::Panics => {
            if !matches!(p.downcast_ref::<OwnPayload>(), Some(OwnPayload(4242))) {
                e.fail("stale_result", "the join of the panicking fresh coroutine delivered a payload that is not its own");
            }
        }
        Ok((v1, v2, ok)) => {
            if v1 != 7 || v2 != 70 {
                e.fail("inherited_local", &format!("the fresh coroutine read local values {} / {} instead of the initial 7 / 70", v1, v2));
            }
            if !ok {
                e.fail("stale_result", "the first park of the fresh coroutine, woken by unpark, reported Timeout/Canceled");
            }
        }
        Err(p) => {
            if p.downcast_ref::<generator::Error>().is_some() {
                e.fail("inherited_cancel", "the fresh coroutine was ended by a Cancel it never got");
            }
            e.fail("unexpected_panic", "the fresh coroutine panicked");
        }
    }
    let same = STACK_ADDR[0].load(Ordering::SeqCst) == STACK_ADDR[1].load(Ordering::SeqCst);
    e.note(&format!("same_stack={}", same));
}

pub fn build(quick: bool) -> Vec<Scenario> {
    let mut v = vec![];
    v.push(Scenario::new("C15", "privacy", "local.privacy.n2.r1.w1", Arc::new(|e| privacy(e, 1, 2, 1, false))));
    v.push(Scenario::new("C15", "privacy", "local.privacy.n2.r2.w2", Arc::new(|e| privacy(e, 2, 2, 2, false))));
    v.push(Scenario::new("C15", "privacy", "local.privacy.n3.r1.w2", Arc::new(|e| privacy(e, 2, 3, 1, false))));
    v.push(Scenario::new("C15", "privacy", "local.privacy.timed_waits.n2.r2.w1", Arc::new(|e| privacy(e, 1, 2, 2, true))));
    v.push(Scenario::new("C15", "privacy", "local.privacy.timed_waits.n2.r2.w2", Arc::new(|e| privacy(e, 2, 2, 2, true))));
    // spawn kinds: pooled default stacks next to stacks of their own size (named / unnamed), ending by return, panic, cancel
    v.push(Scenario::new("C15", "privacy_spawn_kinds", "local.spawn_kinds.default_0x2000_0x3000.w1", Arc::new(|e| privacy_spawn_kinds(e, 1, &[0, 0x2000, 0x3000]))));
    v.push(Scenario::new("C15", "privacy_spawn_kinds", "local.spawn_kinds.0x2000_default_0x2000.w2", Arc::new(|e| privacy_spawn_kinds(e, 2, &[0x2000, 0, 0x2000]))));
    v.push(Scenario::new("C15", "privacy_spawn_kinds", "local.spawn_kinds.0x8000_0x8000.w1", Arc::new(|e| privacy_spawn_kinds(e, 1, &[0x8000, 0x8000]))));
    for prev in [
        Prev::Returned,
        Prev::Panicked,
        Prev::CancelledParked,
        Prev::CancelledRunnable,
        Prev::CancelledYieldingDrop,
        Prev::TimedOutPark,
        Prev::TimedOutSleep,
        Prev::TimedOutBlocker,
        Prev::TimedOutParkVsUnpark,
        Prev::TimedOutBlockerVsUnpark,
        Prev::PanickedCancelPendingYieldingDrop,
    ] {
        let timed = matches!(prev, Prev::TimedOutPark | Prev::TimedOutSleep | Prev::TimedOutBlocker | Prev::TimedOutParkVsUnpark | Prev::TimedOutBlockerVsUnpark);
        let s = Scenario::new("C15", "fresh_start", format!("fresh.after_{:?}.w1", prev).to_lowercase(), Arc::new(move |e| fresh_start(e, prev, 1, false, End::Returns)));
        v.push(if timed { s.clone().t2() } else { s });
        if !quick {
            v.push(Scenario::new("C15", "fresh_start", format!("fresh.after_{:?}.w2", prev).to_lowercase(), Arc::new(move |e| fresh_start(e, prev, 2, false, End::Returns))));
        }
        // the previous occupant's result is never collected (detached) and / or the fresh coroutine itself ends abnormally
        for (detached, end) in [(true, End::Cancelled), (true, End::Returns), (false, End::Cancelled), (true, End::Panics), (false, End::Panics)] {
            if quick && (timed || (!detached && prev != Prev::Panicked) || (end == End::Panics && prev != Prev::Panicked)) {
                continue;
            }
            let s = Scenario::new(
                "C15",
                "fresh_start",
                format!("fresh.after_{:?}{}.then_{:?}.w1", prev, if detached { "_detached" } else { "" }, end).to_lowercase(),
                Arc::new(move |e| fresh_start(e, prev, 1, detached, end)),
            );
            v.push(if timed { s.t2() } else { s });
        }
    }
    v.into_iter().map(|s| s.tier(quick)).collect()
}
