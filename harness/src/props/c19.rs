//! C19 - timer entry list: each entry consumed once, popped in order or removed (component, fine)
use crate::alloc;
use crate::engine::Engine;
use crate::explore::Scenario;
use crate::hist::*;
use crate::util::*;
use may::queue::mpsc_list_v1::{Entry, Queue};
use std::sync::atomic::{AtomicBool, Ordering};
use std::sync::{Arc, Mutex};

#[allow(clippy::declare_interior_mutable_const)]
const F: AtomicBool = AtomicBool::new(false);
static READY: [AtomicBool; 64] = [F; 64];

/// `prods[p]` pushes by producer p (ids p*10+k+1); the consumer (main) runs `cons`:
/// P pop, A pop_if(always), N pop_if(never), O pop_if(id is odd), K peek, E is_empty, digits "Rxy" = remove handle of id xy
fn member(e: &'static Engine, prefill: usize, prods: &'static [usize], cons: &'static str, drop_left: bool, expect_is_head_exact: bool) {
    static H: Hist = Hist::new();
    let q: Arc<Queue<Tracked>> = Arc::new(Queue::new());
    let handles: Arc<Mutex<Vec<Option<Entry<Tracked>>>>> = Arc::new(Mutex::new((0..64).map(|_| None).collect()));
    let mut pushed: Vec<u32> = vec![];
    let mut init: Vec<u32> = vec![];
    // entries that exist before the window opens (ids 50..)
    for k in 0..prefill {
        let id = 50 + k as u32;
        let (h, _) = q.push(Tracked::new(id));
        handles.lock().unwrap_or_else(|e| e.into_inner())[id as usize] = Some(h);
        READY[id as usize].store(true, Ordering::SeqCst);
        pushed.push(id);
        init.push(id);
    }
    e.begin();
    for (p, n) in prods.iter().enumerate() {
        let n = *n;
        for k in 0..n {
            pushed.push((p * 10 + k + 1) as u32);
        }
        let q = q.clone();
        let handles = handles.clone();
        e.spawn("producer", move || {
            for k in 0..n {
                let id = (p * 10 + k + 1) as u32;
                let mut hd = None;
                H.run(p + 1, || {
                    let (h, is_head) = q.push(Tracked::new(id));
                    hd = Some(h);
                    QOp::PushH(id, is_head)
                });
                handles.lock().unwrap_or_else(|e| e.into_inner())[id as usize] = hd;
                READY[id as usize].store(true, Ordering::SeqCst);
            }
        });
    }
    let cs: Vec<char> = cons.chars().collect();
    let mut i = 0;
    while i < cs.len() {
        match cs[i] {
            'P' => {
                H.run(0, || QOp::Pop(q.pop().map(|t| t.id())));
            }
            'A' => {
                H.run(0, || QOp::PopIf(true, q.pop_if(&|_t: &Tracked| true).map(|t| t.id())));
            }
            'N' => {
                H.run(0, || QOp::PopIf(false, q.pop_if(&|_t: &Tracked| false).map(|t| t.id())));
            }
            'O' => {
                // the predicate decides on the head it is shown
                H.run(0, || {
                    let seen = std::cell::Cell::new(None);
                    let r = q
                        .pop_if(&|t: &Tracked| {
                            seen.set(Some(t.id()));
                            t.id() % 2 == 1
                        })
                        .map(|t| t.id());
                    let accept = seen.get().map(|id: u32| id % 2 == 1).unwrap_or(true);
                    if let (Some(s), Some(v)) = (seen.get(), r) {
                        if s != v {
                            e.fail("pop_if_value", &format!("pop_if showed {} to the predicate but returned {}", s, v));
                        }
                    }
                    QOp::PopIf(accept, r)
                });
            }
            'K' => {
                H.run(0, || QOp::Peek(unsafe { q.peek() }.map(|t| t.id())));
            }
            'E' => {
                H.run(0, || QOp::Empty(q.is_empty()));
            }
            'R' => {
                let id = (cs[i + 1].to_digit(10).unwrap() * 10 + cs[i + 2].to_digit(10).unwrap()) as u32;
                i += 2;
                // wait until the producer handed the handle over (after its push returned)
                e.wait_flag(&READY[id as usize]);
                let h = handles.lock().unwrap_or_else(|e| e.into_inner())[id as usize].take().expect("handle");
                H.run(0, || QOp::Remove(id, h.remove().map(|t| t.id())));
            }
            _ => unreachable!(),
        }
        i += 1;
    }
    e.join_all();
    let mut recs = H.take();
    if !drop_left {
        loop {
            if let QOp::Pop(None) = H.run(0, || QOp::Pop(q.pop().map(|t| t.id()))) {
                break;
            }
        }
        recs = H.take();
    }
    let relax = |recs: &[Rec], which: &dyn Fn(&Rec) -> bool| -> Vec<Rec> {
        recs.iter()
            .map(|r| {
                let mut r = r.clone();
                if let QOp::PushH(v, _) = r.op {
                    if which(&r) {
                        r.op = QOp::Push(v);
                    }
                }
                r
            })
            .collect()
    };
    let _ = expect_is_head_exact;
    if linearizable_fifo(&recs, &init).is_none() {
        // which part fails? first without any is_head clause
        if linearizable_fifo(&relax(&recs, &|_| true), &init).is_none() {
            e.fail("linearizable_list", &format!("history is not linearizable to a FIFO list with removal: {}", fmt_hist(&recs)));
        }
        // the two narrow shapes in which the report is taken after the consumer already moved on:
        //  (a) false although the list was empty: the pushed entry itself was consumed before push returned
        //  (b) true although the list was not empty: a consuming operation overlapped the push
        let consumed_before = |id: u32, t: u64| recs.iter().any(|r| matches!(&r.op, QOp::Pop(Some(v)) | QOp::PopIf(_, Some(v)) | QOp::Remove(_, Some(v)) if *v == id) && r.call < t);
        let overlapped = |p: &Rec| recs.iter().any(|r| matches!(&r.op, QOp::Pop(Some(_)) | QOp::PopIf(_, Some(_)) | QOp::Remove(_, Some(_))) && r.call < p.ret && r.ret > p.call);
        let shape_a = |r: &Rec| matches!(r.op, QOp::PushH(v, false) if consumed_before(v, r.ret));
        let shape_b = |r: &Rec| matches!(r.op, QOp::PushH(_, true)) && overlapped(r);
        if linearizable_fifo(&relax(&recs, &|r| shape_a(r)), &init).is_some() {
            e.fail("is_head_false_own_entry_consumed_during_push", &format!("push reported is_head=false on an empty list; its own entry was consumed before it returned: {}", fmt_hist(&recs)));
        }
        if linearizable_fifo(&relax(&recs, &|r| shape_b(r)), &init).is_some() {
            e.fail("is_head_true_predecessor_consumed_during_push", &format!("push reported is_head=true on a non-empty list; the entries before it were consumed while it ran: {}", fmt_hist(&recs)));
        }
        if linearizable_fifo(&relax(&recs, &|r| shape_a(r) || shape_b(r)), &init).is_some() {
            e.fail("is_head_true_predecessor_consumed_during_push", &format!("both narrow is_head shapes in one history: {}", fmt_hist(&recs)));
        }
        e.fail("is_head_exact", &format!("values are consistent but no linearization explains the is_head reports: {}", fmt_hist(&recs)));
    }
    // exactly once
    let mut got: Vec<u32> = vec![];
    for r in recs.iter() {
        match &r.op {
            QOp::Pop(Some(v)) | QOp::PopIf(_, Some(v)) | QOp::Remove(_, Some(v)) => got.push(*v),
            _ => {}
        }
    }
    let mut s = got.clone();
    s.sort();
    s.dedup();
    if s.len() != got.len() {
        e.fail("consumed_twice", &format!("an entry was consumed twice: {:?}; {}", got, fmt_hist(&recs)));
    }
    if !drop_left {
        let mut p = pushed.clone();
        p.sort();
        if s != p {
            e.fail("exactly_once", &format!("pushed {:?} but consumed {:?}; {}", p, got, fmt_hist(&recs)));
        }
    }
    // handles are released without contention, then the queue
    for h in handles.lock().unwrap_or_else(|e| e.into_inner()).iter_mut() {
        h.take();
    }
    drop(q);
    check_drops(e, pushed.iter().cloned());
    let mut o = String::new();
    for r in recs.iter() {
        match &r.op {
            QOp::PushH(v, h) => o.push_str(&format!("U{}{} ", v, if *h { "h" } else { "" })),
            QOp::Pop(v) => o.push_str(&format!("P{} ", v.map(|x| x as i64).unwrap_or(-1))),
            QOp::PopIf(a, v) => o.push_str(&format!("I{}{} ", *a as u8, v.map(|x| x as i64).unwrap_or(-1))),
            QOp::Remove(id, v) => o.push_str(&format!("R{}{} ", id, if v.is_some() { "+" } else { "-" })),
            QOp::Peek(v) => o.push_str(&format!("K{} ", v.map(|x| x as i64).unwrap_or(-1))),
            QOp::Empty(b) => o.push_str(&format!("E{} ", *b as u8)),
            _ => {}
        }
    }
    e.note(&o);
}

/// the plain (non removable) list of may_queue::mpsc_list, same FIFO oracle
fn v0_member(e: &'static Engine, prods: &'static [usize], pops: usize) {
    static H: Hist = Hist::new();
    let q: Arc<may::queue::mpsc_list::Queue<Tracked>> = Arc::new(may::queue::mpsc_list::Queue::new());
    let mut pushed = vec![];
    e.begin();
    for (p, n) in prods.iter().enumerate() {
        let n = *n;
        for k in 0..n {
            pushed.push((p * 10 + k + 1) as u32);
        }
        let q = q.clone();
        e.spawn("producer", move || {
            for k in 0..n {
                let id = (p * 10 + k + 1) as u32;
                H.run(p + 1, || {
                    q.push(Tracked::new(id));
                    QOp::Push(id)
                });
            }
        });
    }
    for _ in 0..pops {
        H.run(0, || QOp::Pop(q.pop().map(|t| t.id())));
    }
    e.join_all();
    loop {
        if let QOp::Pop(None) = H.run(0, || QOp::Pop(q.pop().map(|t| t.id()))) {
            break;
        }
    }
    let recs = H.take();
    if linearizable_fifo(&recs, &[]).is_none() {
        e.fail("linearizable_fifo", &format!("mpsc_list history not linearizable: {}", fmt_hist(&recs)));
    }
    drop(q);
    check_drops(e, pushed.iter().cloned());
    e.note(&format!("{}", recs.iter().filter(|r| r.thread == 0).map(|r| format!("{:?}", r.op)).collect::<Vec<_>>().join(" ")));
}

/// sequential sweep: all consumer/producer operation sequences against a model
/// `queue_first`: the queue is dropped while the handles are alive, then every handle is asked to remove
fn sweep(e: &'static Engine, depth: usize, queue_first: bool) {
    // U push, P pop, A pop_if(always), N pop_if(never), K peek, R0/R1/R2 remove the handle of the i-th live push
    let alphabet = ['U', 'P', 'A', 'N', 'K', '0', '1', '2'];
    let mut idx = vec![0usize; depth];
    let mut count = 0u64;
    loop {
        let q: Queue<Tracked> = Queue::new();
        let mut model: Vec<u32> = vec![];
        let mut hs: Vec<(u32, Option<Entry<Tracked>>)> = vec![];
        let mut next = 1u32;
        for (step, &i) in idx.iter().enumerate() {
            let c = alphabet[i];
            let ctx = || format!("sequence {:?} step {}", idx.iter().map(|i| alphabet[*i]).collect::<String>(), step);
            match c {
                'U' => {
                    let (h, is_head) = q.push(Tracked::new(next));
                    if is_head != model.is_empty() {
                        e.fail("is_head_exact", &format!("push reported is_head={} with {} entries at {}", is_head, model.len(), ctx()));
                    }
                    model.push(next);
                    hs.push((next, Some(h)));
                    next += 1;
                }
                'P' | 'A' => {
                    let got = if c == 'P' { q.pop() } else { q.pop_if(&|_t: &Tracked| true) }.map(|t| t.id());
                    let want = if model.is_empty() { None } else { Some(model.remove(0)) };
                    if got != want {
                        e.fail("sequential_model", &format!("pop returned {:?}, model {:?} at {}", got, want, ctx()));
                    }
                }
                'N' => {
                    if q.pop_if(&|_t: &Tracked| false).is_some() {
                        e.fail("sequential_model", &format!("pop_if(never) returned a value at {}", ctx()));
                    }
                }
                'K' => {
                    let got = unsafe { q.peek() }.map(|t| t.id());
                    if got != model.first().cloned() || q.is_empty() != model.is_empty() {
                        e.fail("sequential_model", &format!("peek {:?} / is_empty {} vs model {:?} at {}", got, q.is_empty(), model, ctx()));
                    }
                }
                _ => {
                    let k = c.to_digit(10).unwrap() as usize;
                    if k < hs.len() {
                        if let Some(h) = hs[k].1.take() {
                            let id = hs[k].0;
                            let linked = h.is_link();
                            let got = h.remove().map(|t| t.id());
                            let present = model.contains(&id);
                            let last = model.last() == Some(&id);
                            match got {
                                Some(v) => {
                                    if v != id || !present {
                                        e.fail("sequential_model", &format!("remove({}) returned {:?}, model {:?} at {}", id, got, model, ctx()));
                                    }
                                    model.retain(|x| *x != id);
                                }
                                None => {
                                    // allowed to decline only when consumed already or when it is the last entry
                                    if present && !last {
                                        e.fail("remove_declined", &format!("remove({}) declined although the entry is linked={} in the middle of {:?} at {}", id, linked, model, ctx()));
                                    }
                                }
                            }
                        }
                    }
                }
            }
        }
        if queue_first {
            drop(q);
            for (id, h) in hs.drain(..) {
                if let Some(h) = h {
                    if let Some(t) = h.remove() {
                        e.fail("remove_after_consumed", &format!("remove({}) returned {} after the queue was dropped at sequence {:?}", id, t.id(), idx.iter().map(|i| alphabet[*i]).collect::<String>()));
                    }
                }
            }
        } else {
            drop(hs);
            drop(q);
        }
        check_drops(e, 1..next);
        count += 1;
        let mut k = depth;
        loop {
            if k == 0 {
                e.count(count);
                e.note(&format!("sequences={}", count));
                return;
            }
            k -= 1;
            idx[k] += 1;
            if idx[k] < alphabet.len() {
                break;
            }
            idx[k] = 0;
        }
    }
}

/// the handle is dropped by the producer right after the push (what Sleep::subscribe does with its timer handle) while the
/// consumer pops: the node's two owners release it from two threads
fn producer_drops_handle(e: &'static Engine, prods: &'static [usize], pops: usize) {
    let q: Arc<Queue<Tracked>> = Arc::new(Queue::new());
    e.begin();
    let mut tids = vec![];
    for (p, n) in prods.iter().enumerate() {
        let q = q.clone();
        let n = *n;
        tids.push(e.spawn("producer", move || {
            for k in 0..n {
                let (h, _) = q.push(Tracked::new((p * 10 + k + 1) as u32));
                drop(h);
            }
        }));
    }
    let mut got: Vec<u32> = vec![];
    for _ in 0..pops {
        if let Some(t) = q.pop() {
            got.push(t.id());
        }
    }
    for t in tids {
        e.join(t);
    }
    while let Some(t) = q.pop() {
        got.push(t.id());
    }
    let mut want: Vec<u32> = vec![];
    for (p, n) in prods.iter().enumerate() {
        let mine: Vec<u32> = got.iter().cloned().filter(|id| (*id as usize - 1) / 10 == p).collect();
        let exp: Vec<u32> = (0..*n).map(|k| (p * 10 + k + 1) as u32).collect();
        if mine != exp {
            e.fail("exactly_once_in_order", &format!("producer {} pushed {:?}, the consumer got {:?}", p, exp, mine));
        }
        want.extend(exp);
    }
    drop(q);
    check_drops(e, want.iter().cloned());
    e.note(&format!("{:?}", got));
}

/// a producer is held (breakpoint) between the two steps of its push - head swapped, predecessor not yet linked - while a
/// second producer completes a push behind it; the consumer then looks at the list. peek / pop wait for the link however
/// long it takes (a helper makes `spins` unrelated steps before it lets the first producer go on), they never report an
/// empty list: is_empty() is false and a push has completed.
fn half_linked_push(e: &'static Engine, spins: usize, op: char) {
    let q: Arc<Queue<Tracked>> = Arc::new(Queue::new());
    static SECOND_DONE: AtomicBool = AtomicBool::new(false);
    e.begin();
    let bp = e.break_at("list.push.swapped");
    let q1 = q.clone();
    let p1 = e.spawn("producer", move || {
        std::mem::forget(q1.push(Tracked::new(1)).0);
    });
    e.wait_hit(bp);
    let q2 = q.clone();
    let p2 = e.spawn("producer", move || {
        std::mem::forget(q2.push(Tracked::new(2)).0);
        SECOND_DONE.store(true, Ordering::SeqCst);
    });
    e.wait_flag(&SECOND_DONE);
    let helper = e.spawn("helper", move || {
        // unrelated steps: every one of them lets the spinning consumer look again
        let dummy: Queue<u32> = Queue::new();
        for i in 0..spins {
            std::mem::forget(dummy.push(i as u32).0);
            let _ = dummy.pop();
            // give way like a busy-waiter: the consumer looks again before the next step
            may::verif::spin_hint();
        }
        e.release(bp);
    });
    if q.is_empty() {
        e.fail("visibility", "is_empty() is true although a push has completed");
    }
    let got = match op {
        'K' => unsafe { q.peek() }.map(|t| t.id()),
        'P' => q.pop().map(|t| t.id()),
        _ => q.pop_if(&|_t: &Tracked| true).map(|t| t.id()),
    };
    if got != Some(1) {
        e.fail("visibility", &format!("the list holds a completed push behind a half-linked one, {} reported {:?} instead of waiting for the oldest entry", match op { 'K' => "peek", 'P' => "pop", _ => "pop_if" }, got));
    }
    e.join(p1);
    e.join(p2);
    e.join(helper);
    let mut rest = vec![];
    while let Some(t) = q.pop() {
        rest.push(t.id());
    }
    let want: Vec<u32> = if op == 'K' { vec![1, 2] } else { vec![2] };
    if rest != want {
        e.fail("exactly_once_in_order", &format!("after the {} the list held {:?}", op, rest));
    }
    e.note(&format!("{:?}", got));
}

fn mk(prefill: usize, prods: &'static [usize], cons: &'static str, drop_left: bool) -> Scenario {
    let name = format!(
        "list.pre{}.prod{}.cons{}{}",
        prefill,
        prods.iter().map(|n| n.to_string()).collect::<Vec<_>>().join("_"),
        cons,
        if drop_left { ".dropleft" } else { "" }
    );
    Scenario::new("C19", "list_v1", name, Arc::new(move |e| member(e, prefill, prods, cons, drop_left, true))).fine()
}

pub fn build(quick: bool) -> Vec<Scenario> {
    let mut v = vec![];
    let d = if quick { 2 } else { 3 };
    // pops racing with pushes
    v.push(mk(0, &[1, 1], "PP", false).bound(d + 1));
    v.push(mk(0, &[2, 1], "PAP", false).bound(d));
    v.push(mk(1, &[1, 1], "KPN", false).bound(d));
    v.push(mk(0, &[2], "EOO", false).bound(d + 1));
    v.push(mk(1, &[2], "OAE", false).bound(d));
    // removes racing with pushes: last entry, middle entry, consumed entry
    v.push(mk(1, &[1], "R50P", false).bound(d + 1));
    v.push(mk(2, &[1], "R51P", false).bound(d + 1));
    v.push(mk(2, &[1, 1], "R50R51", false).bound(d));
    v.push(mk(0, &[2], "R01P", false).bound(d + 1));
    v.push(mk(0, &[2], "R01R02", false).bound(d));
    v.push(mk(0, &[1, 1], "PR01R11", false).bound(d));
    v.push(mk(1, &[2], "PR50R01", false).bound(d));
    // queue dropped with entries left
    v.push(mk(1, &[1, 1], "P", true).bound(d));
    v.push(mk(2, &[1], "R51", true).bound(d));
    if !quick {
        v.push(mk(2, &[2, 1], "R51PR01", false).bound(2));
        v.push(mk(0, &[2, 2], "PAPA", false).bound(2));
        v.push(mk(0, &[1, 1, 1], "PP", false).bound(2));
        v.push(mk(0, &[1, 1], "PP", false).bound(5));
        let extra: Vec<Scenario> = v.iter().take(12).cloned().collect();
        for s in extra {
            let mut r = s.clone().alloc(alloc::RECYCLE).bound(2);
            r.name = format!("{}.recycle", r.name);
            v.push(r);
            let mut r = s.clone().desc().bound(2);
            r.name = format!("{}.desc", r.name);
            v.push(r);
        }
    }
    // a half-linked push in front of a completed one
    for op in ['K', 'P', 'A'] {
        v.push(Scenario::new("C19", "list_v1_half_linked", format!("list.half_linked_push.{}.spins24", op), Arc::new(move |e| half_linked_push(e, 24, op))).fine().bound(1));
    }
    // handles dropped on the producer's thread
    v.push(Scenario::new("C19", "list_v1_handle_drop", "list.handle_dropped_by_producer.prod2.pop2", Arc::new(|e| producer_drops_handle(e, &[2], 2))).fine().bound(d + 1));
    v.push(Scenario::new("C19", "list_v1_handle_drop", "list.handle_dropped_by_producer.prod1_1.pop2", Arc::new(|e| producer_drops_handle(e, &[1, 1], 2))).fine().bound(d));
    // the plain list
    v.push(Scenario::new("C19", "list_v0", "list0.prod1_1.pop2", Arc::new(|e| v0_member(e, &[1, 1], 2))).fine().bound(d + 1));
    v.push(Scenario::new("C19", "list_v0", "list0.prod2_1.pop2", Arc::new(|e| v0_member(e, &[2, 1], 2))).fine().bound(d));
    let depth = if quick { 5 } else { 7 };
    v.push(Scenario::new("C19", "sweep", format!("list.sweep.depth{}", depth), Arc::new(move |e| sweep(e, depth, false))).fine().sequential().bound(0).horizon(u64::MAX));
    // handles that outlive the queue (timeout_list drops per-interval lists while TimeoutHandles are alive)
    v.push(Scenario::new("C19", "sweep", format!("list.sweep.depth{}.queue_dropped_first", depth), Arc::new(move |e| sweep(e, depth, true))).fine().sequential().bound(0).horizon(u64::MAX));
    v
}
