//! C04 - the work-stealing run queue hands every task to exactly one taker (component, fine)
use crate::alloc;
use crate::engine::Engine;
use crate::explore::Scenario;
use crate::util::*;
use may::queue::spmc;
use std::sync::{Arc, Mutex};

const WARM: u32 = 250;
const B: usize = spmc::BLOCK_SIZE;

/// what one stealer obtained: per steal_into call (returned task, tasks moved to its own queue)
type Batches = Vec<(Option<u32>, Vec<u32>)>;

/// owner runs `owner_ops` (U = push, O = pop) on a queue pre-filled with `pre` tasks at block offset
/// `off`; each stealer calls steal_into `steals` times and drains its own queue after each call
fn local_steal(e: &'static Engine, off: usize, pre: usize, owner_ops: &str, stealers: usize, steals: usize) {
    let (steal, mut local) = spmc::local::<Tracked>();
    for _ in 0..off {
        local.push_back(Tracked::new(WARM));
        drop(local.pop().expect("warm-up pop"));
    }
    let mut next = 1u32;
    let mut pushed: Vec<u32> = vec![];
    for _ in 0..pre {
        local.push_back(Tracked::new(next));
        pushed.push(next);
        next += 1;
    }
    let results: Arc<Mutex<Vec<Batches>>> = Arc::new(Mutex::new(vec![Vec::new(); stealers]));
    e.begin();
    for s in 0..stealers {
        let steal = steal.clone();
        let results = results.clone();
        e.spawn("stealer", move || {
            let (_s2, mut mine) = spmc::local::<Tracked>();
            let mut batches: Batches = vec![];
            for _ in 0..steals {
                let ret = steal.steal_into(&mut mine).map(|t| t.id());
                let mut rest = vec![];
                while let Some(t) = mine.pop() {
                    rest.push(t.id());
                }
                batches.push((ret, rest));
            }
            results.lock().unwrap_or_else(|e| e.into_inner())[s] = batches;
        });
    }
    let mut owner_got: Vec<Option<u32>> = vec![];
    for c in owner_ops.chars() {
        match c {
            'U' => {
                local.push_back(Tracked::new(next));
                pushed.push(next);
                next += 1;
            }
            'O' => owner_got.push(local.pop().map(|t| t.id())),
            _ => unreachable!(),
        }
    }
    e.join_all();
    // quiescent: whatever is left must still be poppable by the owner
    let mut left = vec![];
    while let Some(t) = local.pop() {
        left.push(t.id());
    }
    // ---- oracle
    let res = results.lock().unwrap_or_else(|e| e.into_inner()).clone();
    let mut all: Vec<u32> = owner_got.iter().flatten().cloned().collect();
    all.extend(left.iter().cloned());
    for b in res.iter() {
        for (ret, rest) in b.iter() {
            all.extend(ret.iter().cloned());
            all.extend(rest.iter().cloned());
            if let Some(r) = ret {
                if rest.iter().any(|x| x >= r) {
                    e.fail("steal_returns_newest", &format!("steal_into returned {} but moved {:?} to the stealer's queue", r, rest));
                }
            } else if !rest.is_empty() {
                e.fail("steal_returns_newest", &format!("steal_into returned None but moved {:?}", rest));
            }
            if rest.windows(2).any(|w| w[0] >= w[1]) {
                e.fail("batch_order", &format!("stolen batch out of push order: {:?}", rest));
            }
        }
    }
    let mut sorted = all.clone();
    sorted.sort();
    if sorted != pushed {
        e.fail(
            "exactly_once",
            &format!("pushed {:?}; owner pops {:?}, left {:?}, stealers {:?}", pushed, owner_got, left, res),
        );
    }
    let mine: Vec<u32> = owner_got.iter().flatten().cloned().chain(left.iter().cloned()).collect();
    if mine.windows(2).any(|w| w[0] >= w[1]) {
        e.fail("owner_order", &format!("owner pops out of push order: {:?}", mine));
    }
    drop(local);
    drop(steal);
    check_drops(e, pushed.iter().cloned().chain(std::iter::once(WARM)));
    e.note(&format!("owner={} left={} stealers={}", fmt_list(&owner_got.iter().map(|x| x.map(|v| v as i64).unwrap_or(-1)).collect::<Vec<_>>()), fmt_list(&left), fmt_list(&res)));
}

/// raw queue: the producer pushes, consumers use Queue::pop / Queue::bulk_pop concurrently
fn raw_queue(e: &'static Engine, off: usize, pre: usize, pushes: usize, consumers: &'static [&'static str]) {
    let q = Arc::new(spmc::Queue::<Tracked>::new());
    for _ in 0..off {
        q.push(Tracked::new(WARM));
        drop(q.pop().expect("warm-up pop"));
    }
    let mut next = 1u32;
    let mut pushed = vec![];
    for _ in 0..pre {
        q.push(Tracked::new(next));
        pushed.push(next);
        next += 1;
    }
    let results: Arc<Mutex<Vec<Vec<Vec<u32>>>>> = Arc::new(Mutex::new(vec![Vec::new(); consumers.len()]));
    e.begin();
    for (c, ops) in consumers.iter().enumerate() {
        let q = q.clone();
        let results = results.clone();
        e.spawn("consumer", move || {
            let mut got: Vec<Vec<u32>> = vec![];
            for o in ops.chars() {
                match o {
                    'P' => got.push(q.pop().map(|t| t.id()).into_iter().collect()),
                    'B' => got.push(q.bulk_pop().into_iter().map(|t| t.id()).collect()),
                    _ => unreachable!(),
                }
            }
            results.lock().unwrap_or_else(|e| e.into_inner())[c] = got;
        });
    }
    for _ in 0..pushes {
        q.push(Tracked::new(next));
        pushed.push(next);
        next += 1;
    }
    e.join_all();
    let mut left = vec![];
    loop {
        let v: Vec<u32> = q.bulk_pop().into_iter().map(|t| t.id()).collect();
        if v.is_empty() {
            break;
        }
        left.extend(v);
    }
    // the last element is always left to the owner by bulk_pop, take it with pop
    while let Some(t) = q.pop() {
        left.push(t.id());
    }
    let res = results.lock().unwrap_or_else(|e| e.into_inner()).clone();
    let mut all: Vec<u32> = left.clone();
    for c in res.iter() {
        for b in c.iter() {
            if b.windows(2).any(|w| w[0] >= w[1]) {
                e.fail("batch_order", &format!("bulk_pop batch out of push order: {:?}", b));
            }
            all.extend(b.iter().cloned());
        }
        let flat: Vec<u32> = c.iter().flatten().cloned().collect();
        if flat.windows(2).any(|w| w[0] >= w[1]) {
            e.fail("consumer_order", &format!("one consumer obtained tasks out of push order: {:?}", c));
        }
    }
    all.sort();
    if all != pushed {
        e.fail("exactly_once", &format!("pushed {:?}; consumers {:?}, left {:?}", pushed, res, left));
    }
    drop(q);
    check_drops(e, pushed.iter().cloned().chain(std::iter::once(WARM)));
    e.note(&format!("consumers={} left={}", fmt_list(&res), fmt_list(&left)));
}

/// ABA on a recycled block (recycle allocator): a stealer is stalled between its head/tail snapshot and its CAS while
/// the owner runs two blocks of push/pop, so that a freed block comes back at the same address with the same slot index
fn aba(e: &'static Engine) {
    let (steal, mut local) = spmc::local::<Tracked>();
    let mut next = 1u32;
    let mut pushed = vec![];
    let mut push = |local: &mut spmc::Local<Tracked>, pushed: &mut Vec<u32>| {
        // ids beyond the tracked range are folded: only exactly-once per id class matters here
        local.push_back(Tracked::new(next % 200));
        pushed.push(next);
        next += 1;
    };
    for _ in 0..3 {
        push(&mut local, &mut pushed);
    }
    let got: Arc<Mutex<Vec<u32>>> = Arc::new(Mutex::new(vec![]));
    let g2 = got.clone();
    e.begin();
    e.spawn("stealer", move || {
        let (_s2, mut mine) = spmc::local::<Tracked>();
        let mut v = vec![];
        if let Some(t) = steal.steal_into(&mut mine) {
            v.push(t.id());
        }
        while let Some(t) = mine.pop() {
            v.push(t.id());
        }
        g2.lock().unwrap_or_else(|e| e.into_inner()).extend(v);
    });
    let mut mine = vec![];
    for _ in 3..B {
        push(&mut local, &mut pushed);
    }
    for _ in 0..B {
        if let Some(t) = local.pop() {
            mine.push(t.id());
        }
    }
    for _ in 0..B {
        push(&mut local, &mut pushed);
    }
    for _ in 0..B {
        if let Some(t) = local.pop() {
            mine.push(t.id());
        }
    }
    push(&mut local, &mut pushed);
    e.join_all();
    while let Some(t) = local.pop() {
        mine.push(t.id());
    }
    let mut all = mine.clone();
    all.extend(got.lock().unwrap_or_else(|e| e.into_inner()).iter().cloned());
    all.sort();
    let mut want: Vec<u32> = pushed.iter().map(|x| x % 200).collect();
    want.sort();
    if all != want {
        e.fail("exactly_once", &format!("pushed {} tasks, obtained {}: lost or duplicated", want.len(), all.len()));
    }
    e.note(&format!("owner={} stealer={}", mine.len(), got.lock().unwrap_or_else(|e| e.into_inner()).len()));
}

fn mk_ls(off: usize, pre: usize, owner: &'static str, stealers: usize, steals: usize) -> Scenario {
    Scenario::new(
        "C04",
        "local_steal",
        format!("ls.off{}.pre{}.owner{}.st{}x{}", off, pre, owner, stealers, steals),
        Arc::new(move |e| local_steal(e, off, pre, owner, stealers, steals)),
    )
    .fine()
}

fn mk_raw(off: usize, pre: usize, pushes: usize, consumers: &'static [&'static str]) -> Scenario {
    Scenario::new(
        "C04",
        "raw_queue",
        format!("raw.off{}.pre{}.push{}.cons{}", off, pre, pushes, consumers.join("_")),
        Arc::new(move |e| raw_queue(e, off, pre, pushes, consumers)),
    )
    .fine()
}

pub fn build(quick: bool) -> Vec<Scenario> {
    let mut v = vec![];
    let d = if quick { 2 } else { 3 };
    let offs: Vec<usize> = if quick { vec![0, B - 2, B - 1] } else { vec![0, B - 3, B - 2, B - 1, B, 2 * B - 1] };
    for off in offs.iter().cloned() {
        // one stealer against owner pops and pushes
        v.push(mk_ls(off, 2, "OO", 1, 1).bound(d + 1));
        v.push(mk_ls(off, 3, "OUO", 1, 1).bound(d));
        v.push(mk_ls(off, 1, "UO", 1, 2).bound(d));
        v.push(mk_ls(off, 0, "UUO", 1, 1).bound(d));
        // two stealers
        v.push(mk_ls(off, 3, "O", 2, 1).bound(d));
        v.push(mk_ls(off, 2, "UO", 2, 1).bound(2));
        // raw queue: concurrent single and bulk pops
        v.push(mk_raw(off, 2, 1, &["P", "B"]).bound(d));
        v.push(mk_raw(off, 1, 2, &["PP"]).bound(d));
        v.push(mk_raw(off, 3, 0, &["B", "P"]).bound(d));
    }
    // ABA: the owner's long run costs choice points, not deviations (no fairness rotation, no post points)
    v.push(Scenario::new("C04", "aba", "aba.recycle.stalled_stealer", Arc::new(aba)).fine().post_points(false).alloc(alloc::RECYCLE).fair(1_000_000).bound(2).shards(12).horizon(8_000));
    if !quick {
        for off in [B - 2, B - 1] {
            v.push(mk_ls(off, 4, "OUOU", 2, 1).bound(2));
            v.push(mk_ls(off, 2, "OO", 1, 1).bound(4));
            v.push(mk_raw(off, 2, 2, &["PB", "BP"]).bound(2));
            for s in [mk_ls(off, 3, "OUO", 1, 1), mk_ls(off, 3, "O", 2, 1), mk_raw(off, 2, 1, &["P", "B"])] {
                let mut r = s.clone().alloc(alloc::RECYCLE).bound(2);
                r.name = format!("{}.recycle", r.name);
                v.push(r);
                let mut r = s.clone().desc().bound(2);
                r.name = format!("{}.desc", r.name);
                v.push(r);
            }
        }
    }
    v
}
