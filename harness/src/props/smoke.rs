//! engine smoke scenarios (not a registered check)
use crate::engine::Engine;
use crate::explore::Scenario;
use crate::util::*;
use std::sync::Arc;

fn sc(name: &str, f: impl Fn(&'static Engine) + Send + Sync + 'static) -> Scenario {
    Scenario::new("SMOKE", "smoke", name, Arc::new(f))
}

pub fn build(_quick: bool) -> Vec<Scenario> {
    let mut v = vec![];
    v.push(sc("q_mpsc_fine", |e| {
        let q = Arc::new(may::queue::mpsc::Queue::<u32>::new());
        e.begin();
        for i in 0..2u32 {
            let q = q.clone();
            e.spawn("pusher", move || q.push(i + 1));
        }
        let mut got = vec![];
        let mut tries = 0;
        while got.len() < 2 && tries < 3 {
            match q.pop() {
                Some(v) => got.push(v),
                None => tries += 1,
            }
        }
        e.note(&fmt_list(&got));
    }).fine());
    v.push(sc("spawn2", |e| {
        rt_init(2);
        e.begin();
        let a = go!(|| {
            may::coroutine::yield_now();
            1
        });
        let b = go!(|| {
            may::coroutine::yield_now();
            2
        });
        let r = a.join().unwrap() + b.join().unwrap();
        e.note(&format!("sum={}", r));
    }));
    v.push(sc("mutex3", |e| {
        rt_init(2);
        let m = Arc::new(may::sync::Mutex::new(0u32));
        e.begin();
        let mut hs = vec![];
        for _ in 0..2 {
            let m = m.clone();
            hs.push(go!(move || {
                let mut g = m.lock().unwrap();
                *g += 1;
            }));
        }
        {
            let mut g = m.lock().unwrap();
            *g += 1;
        }
        for h in hs {
            h.join().unwrap();
        }
        let v = *m.lock().unwrap();
        if v != 3 {
            e.fail("lost_update", "counter != 3");
        }
    }));
    v.push(sc("spsc_disconnect", |e| {
        rt_init(1);
        let (tx, rx) = may::sync::spsc::channel::<u32>();
        e.begin();
        let h = go!(move || rx.recv().is_err());
        drop(tx);
        let r = h.join().unwrap();
        e.note(&format!("disc={}", r));
    }));
    v.push(sc("park_timeout_t2", |e| {
        rt_init(1);
        e.begin();
        let h = go!(move || {
            may::coroutine::park_timeout(std::time::Duration::from_millis(2));
            1
        });
        let r = h.join().unwrap();
        e.note(&format!("r={}", r));
    }).t2());
    v.push(sc("unix_io", |e| {
        use std::io::{Read, Write};
        rt_init(2);
        let (mut a, mut b) = may::os::unix::net::UnixStream::pair().unwrap();
        e.begin();
        let r = go!(move || {
            let mut buf = [0u8; 4];
            let mut got = vec![];
            loop {
                let n = b.read(&mut buf).unwrap();
                if n == 0 {
                    break;
                }
                got.extend_from_slice(&buf[..n]);
            }
            got
        });
        let w = go!(move || {
            a.write_all(b"hello").unwrap();
            may::coroutine::yield_now();
            a.write_all(b"world!").unwrap();
        });
        w.join().unwrap();
        let got = r.join().unwrap();
        if got != b"helloworld!" {
            e.fail("stream", "stream corrupted");
        }
        e.note(&format!("len={}", got.len()));
    }));
    v
}
