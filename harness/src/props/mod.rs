//! scenario families, one module per property
use crate::explore::Scenario;

mod c01;
mod c02;
mod c03;
mod c04;
mod c19;
mod smoke;

pub fn build(prop: &str, tier: &str) -> Vec<Scenario> {
    let quick = tier != "thorough";
    match prop {
        "SMOKE" => smoke::build(quick),
        "C01" => c01::build(quick),
        "C02" => c02::build(quick),
        "C03" => c03::build(quick),
        "C04" => c04::build(quick),
        "C19" => c19::build(quick),
        _ => vec![],
    }
}
