//! scenario families, one module per property
use crate::explore::Scenario;

mod smoke;

pub fn build(prop: &str, tier: &str) -> Vec<Scenario> {
    let quick = tier != "thorough";
    match prop {
        "SMOKE" => smoke::build(quick),
        _ => vec![],
    }
}
