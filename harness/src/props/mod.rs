//! scenario families, one module per property
use crate::explore::Scenario;

mod c01;
mod c02;
mod c03;
mod c04;
mod c05;
mod c08;
mod c09;
mod c10;
mod c11;
mod c12;
mod c13;
mod c14;
mod c15;
mod c16;
mod chan;
mod netio;
mod c19;
mod smoke;

pub fn build(prop: &str, tier: &str) -> Vec<Scenario> {
    let quick = tier != "thorough";
    match prop {
        "SMOKE" => smoke::build(quick),
        "C01" => c01::build(quick),
        "C02" => c02::build(quick),
        "C03" => c03::build(quick),
        "C04" => c04::build(quick),
        "C05" => c05::build(quick),
        "C06" => chan::build_c06(quick),
        "C07" => chan::build_c07(quick),
        "C08" => c08::build(quick),
        "C09" => c09::build(quick),
        "C10" => c10::build(quick),
        "C11" => c11::build(quick),
        "C12" => c12::build(quick),
        "C13" => c13::build(quick),
        "C14" => c14::build(quick),
        "C15" => c15::build(quick),
        "C16" => c16::build(quick),
        "C17" => netio::build_c17(quick),
        "C18" => netio::build_c18(quick),
        "C19" => c19::build(quick),
        _ => vec![],
    }
}
