//! C09 - cancellation stops the target, cleans up, never corrupts what it waited on
use crate::engine::Engine;
use crate::explore::Scenario;
use crate::util::*;
use may::coroutine;
use may::sync::{mpmc, mpsc, Condvar, Mutex, RwLock, Semphore, SyncFlag};
use std::sync::atomic::{AtomicBool, AtomicU32, Ordering};
use std::sync::{Arc, TryLockError};
use std::time::Duration;

static LAST_RETURNED: AtomicBool = AtomicBool::new(false);
static T_GOT: AtomicU32 = AtomicU32::new(0);
static W_GOT: AtomicU32 = AtomicU32::new(0);
static CHILD_RUNS: AtomicU32 = AtomicU32::new(0);
static CHILD_DONE: AtomicBool = AtomicBool::new(false);
static HELPER_DONE: AtomicBool = AtomicBool::new(false);

#[derive(Clone, Copy, PartialEq, Debug)]
pub enum Prim {
    Park,
    Sleep,
    Mutex,
    Sem,
    Condvar,
    RwRead,
    RwWrite,
    Flag,
    MpscRecv,
    MpmcRecv,
    Join,
    Yield,
    ParkTimeout,
    SemTimeout,
    CondvarTimeout,
    MpscRecvTimeout,
    SpscRecv,
    Barrier,
}

struct Shared {
    m: Mutex<u32>,
    sem: Semphore,
    cv: Condvar,
    cvm: Mutex<bool>,
    rw: RwLock<u32>,
    flag: SyncFlag,
    bar: may::sync::Barrier,
    rx3: std::sync::Mutex<Option<may::sync::spsc::Receiver<u32>>>,
}

/// the blocking call under test; true when it returned normally
fn block_in(p: Prim, s: &Shared, who: &AtomicU32, rx1: Option<&mpsc::Receiver<u32>>, rx2: &mpmc::Receiver<u32>) {
    match p {
        Prim::Park => coroutine::park(),
        Prim::Sleep => coroutine::sleep(Duration::from_millis(1)),
        Prim::Yield => {
            coroutine::yield_now();
            coroutine::yield_now();
        }
        Prim::Mutex => {
            let mut g = s.m.lock().unwrap();
            *g += 1;
            who.fetch_add(1, Ordering::SeqCst);
        }
        Prim::Sem => {
            s.sem.wait();
            who.fetch_add(1, Ordering::SeqCst);
        }
        Prim::Condvar => {
            let mut g = s.cvm.lock().unwrap();
            while !*g {
                g = s.cv.wait(g).unwrap();
            }
            who.fetch_add(1, Ordering::SeqCst);
        }
        Prim::RwRead => {
            let g = s.rw.read().unwrap();
            let _ = *g;
            who.fetch_add(1, Ordering::SeqCst);
        }
        Prim::RwWrite => {
            let mut g = s.rw.write().unwrap();
            *g += 1;
            who.fetch_add(1, Ordering::SeqCst);
        }
        Prim::Flag => {
            s.flag.wait();
            who.fetch_add(1, Ordering::SeqCst);
        }
        Prim::MpscRecv => {
            if rx1.unwrap().recv().is_ok() {
                who.fetch_add(1, Ordering::SeqCst);
            }
        }
        Prim::MpmcRecv => {
            if rx2.recv().is_ok() {
                who.fetch_add(1, Ordering::SeqCst);
            }
        }
        Prim::ParkTimeout => coroutine::park_timeout(Duration::from_millis(2)),
        Prim::SemTimeout => {
            if s.sem.wait_timeout(Duration::from_millis(2)) {
                who.fetch_add(1, Ordering::SeqCst);
            }
        }
        Prim::CondvarTimeout => {
            let mut g = s.cvm.lock().unwrap();
            while !*g {
                let (g2, r) = s.cv.wait_timeout(g, Duration::from_millis(2)).unwrap();
                g = g2;
                if r.timed_out() {
                    break;
                }
            }
            if *g {
                who.fetch_add(1, Ordering::SeqCst);
            }
        }
        Prim::MpscRecvTimeout => {
            if rx1.unwrap().recv_timeout(Duration::from_millis(2)).is_ok() {
                who.fetch_add(1, Ordering::SeqCst);
            }
        }
        Prim::SpscRecv => {
            let rx = s.rx3.lock().unwrap_or_else(|e| e.into_inner()).take().unwrap();
            if rx.recv().is_ok() {
                who.fetch_add(1, Ordering::SeqCst);
            }
        }
        Prim::Barrier => {
            s.bar.wait();
            who.fetch_add(1, Ordering::SeqCst);
        }
        Prim::Join => {
            let h = go!(|| {
                CHILD_RUNS.fetch_add(1, Ordering::SeqCst);
                coroutine::yield_now();
                coroutine::yield_now();
                CHILD_DONE.store(true, Ordering::SeqCst);
            });
            h.join().ok();
            who.fetch_add(1, Ordering::SeqCst);
        }
    }
}

fn run(e: &'static Engine, workers: usize, p: Prim, bystander: bool, cancel: bool, event: bool) {
    rt_init(workers);
    let (tx3, rx3) = may::sync::spsc::channel::<u32>();
    let s = Arc::new(Shared {
        m: Mutex::new(0),
        sem: Semphore::new(0),
        cv: Condvar::new(),
        cvm: Mutex::new(false),
        rw: RwLock::new(0),
        flag: SyncFlag::new(),
        bar: may::sync::Barrier::new(2),
        rx3: std::sync::Mutex::new(Some(rx3)),
    });
    let (tx1, rx1) = mpsc::channel::<u32>();
    let (tx2, rx2) = mpmc::channel::<u32>();
    // the main thread holds what the others wait for
    let mg = if p == Prim::Mutex { Some(s.m.lock().unwrap()) } else { None };
    let rg = if matches!(p, Prim::RwRead | Prim::RwWrite) { Some(s.rw.write().unwrap()) } else { None };
    e.begin();
    let (s1, rx2a) = (s.clone(), rx2.clone());
    let t = go!(move || {
        let _a = Tracked::new(1);
        let _b = Tracked::new(2);
        block_in(p, &s1, &T_GOT, Some(&rx1), &rx2a);
        // a second cancellable call
        coroutine::sleep(Duration::from_millis(1));
        LAST_RETURNED.store(true, Ordering::SeqCst);
        7u32
    });
    let w = if bystander {
        let (s2, rx2b) = (s.clone(), rx2.clone());
        // the bystander never blocks on the single-receiver channel
        let pw = if matches!(p, Prim::MpscRecv | Prim::MpscRecvTimeout) { Prim::Yield } else { p };
        Some(go!(move || {
            let _c = Tracked::new(3);
            block_in(pw, &s2, &W_GOT, None, &rx2b);
            8u32
        }))
    } else {
        None
    };
    drop(rx2);
    let pre_done = LAST_RETURNED.load(Ordering::SeqCst);
    let mut t = Some(t);
    if cancel {
        unsafe { t.as_ref().unwrap().coroutine().cancel() };
    }
    // without `event` the cancel is the only thing that can end the target's wait: a lost cancel hangs the join;
    // what the others need is released only after the target has been joined
    let mut early: Option<Result<u32, Box<dyn std::any::Any + Send>>> = None;
    let mut helper = None;
    if !event {
        early = Some(t.take().unwrap().join());
    }
    // the awaited events, enough for the target and the bystander
    match p {
        Prim::Park | Prim::ParkTimeout => {
            if let Some(t) = t.as_ref() {
                t.coroutine().unpark()
            }
        }
        Prim::Mutex => drop(mg),
        Prim::RwRead | Prim::RwWrite => drop(rg),
        Prim::Sem | Prim::SemTimeout => {
            s.sem.post();
            s.sem.post();
        }
        Prim::Condvar | Prim::CondvarTimeout => {
            *s.cvm.lock().unwrap() = true;
            s.cv.notify_all();
        }
        Prim::Flag => s.flag.fire(),
        Prim::MpscRecv | Prim::MpscRecvTimeout => {
            let _ = tx1.send(1);
        }
        Prim::SpscRecv => {
            let _ = tx3.send(1);
        }
        Prim::Barrier => {
            // a helper is the second party; whether the target's arrival got counted depends on where the cancel hit it
            let s2 = s.clone();
            helper = Some(go!(move || {
                s2.bar.wait();
                HELPER_DONE.store(true, Ordering::SeqCst);
            }));
        }
        Prim::MpmcRecv => {
            let _ = tx2.send(1);
            let _ = tx2.send(2);
        }
        Prim::Sleep | Prim::Join | Prim::Yield => {}
    }
    let mut out = String::new();
    if let Some(h) = helper.take() {
        // the target is over or inside the barrier: if the helper is still waiting, the target never arrived
        if early.is_none() {
            early = Some(t.take().unwrap().join());
        }
        e.quiesce();
        if !HELPER_DONE.load(Ordering::SeqCst) {
            s.bar.wait();
        }
        if h.join().is_err() {
            e.fail("bystander_hurt", "the other party of the barrier panicked");
        }
    }
    let tres = match early {
        Some(r) => r,
        None => t.take().unwrap().join(),
    };
    match tres {
        Ok(7) => {
            if cancel && !pre_done {
                e.fail("cancel_ignored", "the target returned normally although it was cancelled before its last blocking call had returned");
            }
            out.push_str("t=ok ");
        }
        Ok(_) => unreachable!(),
        Err(pl) => {
            if pl.downcast_ref::<generator::Error>().is_none() {
                e.fail("unexpected_panic", &format!("the target ended with a panic that is not Cancel: {:?}", e.panics().last()));
            }
            if !cancel {
                e.fail("cancel_unasked", "the target reports Cancel but was never cancelled");
            }
            out.push_str("t=cancel ");
        }
    }
    if let Some(w) = w {
        match w.join() {
            Ok(8) => out.push_str("w=ok "),
            Ok(_) => unreachable!(),
            Err(pl) => {
                if pl.downcast_ref::<generator::Error>().is_some() {
                    e.fail("cancel_unasked", "the bystander observed a cancellation");
                }
                e.fail("unexpected_panic", "the bystander panicked");
            }
        }
    }
    drop(tx1);
    drop(tx2);
    drop(tx3);
    // the primitive is intact
    let (tg, wg) = (T_GOT.load(Ordering::SeqCst), W_GOT.load(Ordering::SeqCst));
    match p {
        Prim::Mutex => match s.m.try_lock() {
            Ok(g) => {
                if *g != tg + wg {
                    e.fail("lost_update", &format!("mutex value {} after {} critical sections", *g, tg + wg));
                }
            }
            Err(TryLockError::WouldBlock) => e.fail("not_released", "the mutex is still locked after everybody finished"),
            Err(TryLockError::Poisoned(_)) => e.fail("poisoned", "the cancellation unwind poisoned the mutex"),
        },
        Prim::RwRead | Prim::RwWrite => {
            match s.rw.try_write() {
                Ok(_) => {}
                Err(TryLockError::WouldBlock) => e.fail("not_released", "the rwlock is still held after everybody finished"),
                Err(TryLockError::Poisoned(_)) => e.fail("poisoned", "the cancellation unwind poisoned the rwlock"),
            }
            super::c12::probe(e, &s.rw);
        }
        Prim::Barrier => {
            // the barrier is reusable after a party was cancelled inside it
            let s2 = s.clone();
            let h = go!(move || s2.bar.wait().is_leader());
            let l = s.bar.wait().is_leader();
            match h.join() {
                Ok(l2) if l2 != l => {}
                _ => e.fail("barrier_leader", "the generation after the cancelled party did not have exactly one leader"),
            }
        }
        Prim::Sem | Prim::SemTimeout => {
            let v = s.sem.get_value() as u32;
            if v + tg + wg != 2 {
                e.fail("permit_conservation", &format!("2 posts, {} + {} successful waits, value {}", tg, wg, v));
            }
        }
        Prim::Condvar | Prim::CondvarTimeout => {
            if s.cvm.try_lock().is_err() {
                e.fail("not_released", "the condvar's mutex is still locked or poisoned");
            }
        }
        Prim::Join => {
            e.quiesce();
            if CHILD_RUNS.load(Ordering::SeqCst) == 1 && !CHILD_DONE.load(Ordering::SeqCst) {
                e.fail("bystander_hurt", "the joined child did not run to its end after its joiner was cancelled");
            }
        }
        _ => {}
    }
    e.quiesce();
    check_drops(e, 1..=if bystander { 3 } else { 2 });
    e.note(&format!("{}tg={} wg={}", out, tg, wg));
}

static IN_CS: AtomicU32 = AtomicU32::new(0);
static CS_OVERLAP: AtomicBool = AtomicBool::new(false);
static DTOR_RAN: AtomicBool = AtomicBool::new(false);

/// owned by the target's stack: its destructor takes a may Mutex (as `WaitGroup`'s own Drop does), a Semphore permit, or
/// receives from a channel - blocking calls made while the coroutine unwinds from its cancellation
struct BlockOnDrop(Arc<Shared>, u8);
impl Drop for BlockOnDrop {
    fn drop(&mut self) {
        match self.1 {
            0 => {
                let mut g = self.0.m.lock().unwrap();
                if IN_CS.fetch_add(1, Ordering::SeqCst) != 0 {
                    CS_OVERLAP.store(true, Ordering::SeqCst);
                }
                *g += 1;
                coroutine::yield_now();
                IN_CS.fetch_sub(1, Ordering::SeqCst);
            }
            1 => self.0.sem.wait(),
            _ => self.0.flag.wait(),
        }
        DTOR_RAN.store(true, Ordering::SeqCst);
    }
}

/// the target is cancelled while parked; the destructor of a value on its stack then blocks on something the main thread
/// provides a little later. The unwind must wait for it like any other code would - no second panic (= abort of the
/// process), no lock taken without owning it - and the join must report Cancel.
fn blocking_destructor(e: &'static Engine, workers: usize, what: u8) {
    rt_init(workers);
    let (_tx3, rx3) = may::sync::spsc::channel::<u32>();
    let s = Arc::new(Shared {
        m: Mutex::new(0),
        sem: Semphore::new(0),
        cv: Condvar::new(),
        cvm: Mutex::new(false),
        rw: RwLock::new(0),
        flag: SyncFlag::new(),
        bar: may::sync::Barrier::new(2),
        rx3: std::sync::Mutex::new(Some(rx3)),
    });
    let g = if what == 0 { Some(s.m.lock().unwrap()) } else { None };
    e.begin();
    let s1 = s.clone();
    let t = go!(move || {
        let _a = Tracked::new(1);
        let _d = BlockOnDrop(s1, what);
        loop {
            coroutine::park();
        }
    });
    e.quiesce();
    unsafe { t.coroutine().cancel() };
    // the target unwinds and its destructor blocks
    e.quiesce();
    match what {
        0 => {
            // the main thread is still inside its critical section
            if IN_CS.fetch_add(1, Ordering::SeqCst) != 0 {
                CS_OVERLAP.store(true, Ordering::SeqCst);
            }
            e.sched_point();
            IN_CS.fetch_sub(1, Ordering::SeqCst);
            drop(g);
        }
        1 => s.sem.post(),
        _ => s.flag.fire(),
    }
    match t.join() {
        Ok(()) => e.fail("cancel_ignored", "the parked target returned normally"),
        Err(p) => {
            if p.downcast_ref::<generator::Error>().is_none() {
                e.fail("unexpected_panic", &format!("the target ended with a panic that is not Cancel: {:?}", e.panics().last()));
            }
        }
    }
    if !DTOR_RAN.load(Ordering::SeqCst) {
        e.fail("destructor_cut_short", "the blocking destructor did not run to its end");
    }
    if CS_OVERLAP.load(Ordering::SeqCst) {
        e.fail("mutual_exclusion", "the destructor was inside the mutex while the main thread still held it");
    }
    if what == 0 {
        match s.m.try_lock() {
            Ok(g) => {
                if *g != 1 {
                    e.fail("lost_update", &format!("mutex value {} after one critical section", *g));
                }
            }
            Err(TryLockError::WouldBlock) => e.fail("not_released", "the mutex is still locked after everybody finished"),
            Err(TryLockError::Poisoned(_)) => e.fail("poisoned", "the cancellation unwind poisoned the mutex"),
        };
    }
    e.quiesce();
    check_drops(e, 1..=1);
    e.note("cancel");
}

/// the target holds locks when the cancel reaches it in a later blocking call: a Mutex guard, an RwLock write guard or an
/// RwLock read guard (`what` 0 / 1 / 2). A waiter is queued behind it. The unwind must release the lock, hand it to the
/// waiter, and must not poison it.
fn cancel_while_holding(e: &'static Engine, workers: usize, what: u8, sleep: bool) {
    rt_init(workers);
    let m = Arc::new(Mutex::new(0u32));
    let rw = Arc::new(RwLock::new(0u32));
    static HOLDING: AtomicBool = AtomicBool::new(false);
    e.begin();
    let (m1, rw1) = (m.clone(), rw.clone());
    let t = go!(move || {
        let _a = Tracked::new(1);
        let _g0 = if what == 0 { Some(m1.lock().unwrap()) } else { None };
        let _g1 = if what == 1 { Some(rw1.write().unwrap()) } else { None };
        let _g2 = if what == 2 { Some(rw1.read().unwrap()) } else { None };
        HOLDING.store(true, Ordering::SeqCst);
        if sleep {
            coroutine::sleep(Duration::from_millis(5));
        } else {
            loop {
                coroutine::park();
            }
        }
    });
    e.wait_flag(&HOLDING);
    let (m2, rw2) = (m.clone(), rw.clone());
    let w = go!(move || {
        let _b = Tracked::new(2);
        if what == 0 {
            match m2.lock() {
                Ok(mut g) => *g += 1,
                Err(_) => W_GOT.store(99, Ordering::SeqCst),
            }
        } else {
            match rw2.write() {
                Ok(mut g) => *g += 1,
                Err(_) => W_GOT.store(99, Ordering::SeqCst),
            }
        }
    });
    unsafe { t.coroutine().cancel() };
    match t.join() {
        Ok(()) if sleep => {}
        Ok(()) => e.fail("cancel_ignored", "the parked target returned normally"),
        Err(p) => {
            if p.downcast_ref::<generator::Error>().is_none() {
                e.fail("unexpected_panic", "the target ended with a panic that is not Cancel");
            }
        }
    }
    if w.join().is_err() {
        e.fail("bystander_hurt", "the waiter behind the cancelled holder panicked");
    }
    if W_GOT.load(Ordering::SeqCst) == 99 {
        e.fail("poisoned", "the waiter behind the cancelled holder found the lock poisoned");
    }
    if what == 0 {
        match m.try_lock() {
            Ok(g) => {
                if *g != 1 {
                    e.fail("lost_update", &format!("mutex value {} after one critical section", *g));
                }
            }
            Err(TryLockError::WouldBlock) => e.fail("not_released", "the mutex is still locked after everybody finished"),
            Err(TryLockError::Poisoned(_)) => e.fail("poisoned", "the cancellation unwind poisoned the mutex"),
        };
    } else {
        match rw.try_write() {
            Ok(g) => {
                if *g != 1 {
                    e.fail("lost_update", &format!("rwlock value {} after one critical section", *g));
                }
            }
            Err(TryLockError::WouldBlock) => e.fail("not_released", "the rwlock is still held after everybody finished"),
            Err(TryLockError::Poisoned(_)) => e.fail("poisoned", "the cancellation unwind poisoned the rwlock"),
        };
        super::c12::probe(e, &rw);
    }
    e.quiesce();
    check_drops(e, 1..=2);
    e.note("done");
}

pub fn build(quick: bool) -> Vec<Scenario> {
    let mut v = vec![];
    for w in [1usize, 2] {
        for (what, name) in [(0u8, "mutex"), (1, "rwlock_write"), (2, "rwlock_read")] {
            v.push(Scenario::new("C09", "cancel_while_holding", format!("cancel.holding_{}.parked.w{}", name, w), Arc::new(move |e| cancel_while_holding(e, w, what, false))));
            if w == 1 || !quick {
                v.push(Scenario::new("C09", "cancel_while_holding", format!("cancel.holding_{}.sleeping.w{}", name, w), Arc::new(move |e| cancel_while_holding(e, w, what, true))).t2());
            }
        }
    }
    for w in [1usize, 2] {
        for (what, name) in [(0u8, "mutex"), (1, "sem"), (2, "flag")] {
            v.push(Scenario::new("C09", "blocking_destructor", format!("cancel.destructor_blocks_on_{}.w{}", name, w), Arc::new(move |e| blocking_destructor(e, w, what))));
        }
    }
    for w in [1usize, 2] {
        for (p, by) in [
            (Prim::Park, false),
            (Prim::Sleep, false),
            (Prim::Yield, false),
            (Prim::Mutex, true),
            (Prim::Sem, true),
            (Prim::Condvar, true),
            (Prim::RwRead, true),
            (Prim::RwWrite, true),
            (Prim::Flag, true),
            (Prim::MpscRecv, false),
            (Prim::MpmcRecv, true),
            (Prim::Join, false),
            (Prim::ParkTimeout, false),
            (Prim::SemTimeout, true),
            (Prim::CondvarTimeout, true),
            (Prim::MpscRecvTimeout, false),
            (Prim::SpscRecv, false),
            (Prim::Barrier, false),
        ] {
            v.push(Scenario::new("C09", "cancel", format!("cancel.{:?}.w{}", p, w).to_lowercase(), Arc::new(move |e| run(e, w, p, by, true, true))).t2());
        }
    }
    // the cancel is the only wake-up the target ever gets (not for the spsc receive: the statement does not list it as a
    // cancellable call, it only has to behave when the cancel arrives before or after it)
    for w in [1usize, 2] {
        for p in [Prim::Park, Prim::Mutex, Prim::Sem, Prim::Condvar, Prim::RwWrite, Prim::Flag, Prim::MpscRecv, Prim::MpmcRecv] {
            v.push(Scenario::new("C09", "cancel_only", format!("cancel_only.{:?}.w{}", p, w).to_lowercase(), Arc::new(move |e| run(e, w, p, false, true, false))));
        }
    }
    // the cancel races with the hand-off itself: the waker acts in the instant in which the cancelled waiter has
    // registered its release (gated on the label behind SyncBlocker::set_release); whoever loses must pass the
    // lock / permit / notification on exactly once
    for w in [1usize, 2] {
        v.push(Scenario::new("C09", "cancel_vs_handoff", format!("cancel_vs_handoff.mutex.w{}", w), Arc::new(move |e| super::c05::handoff_vs_cancel(e, w, false))).bound(2));
        if quick && w == 2 {
            continue;
        }
        v.push(Scenario::new("C09", "cancel_vs_handoff", format!("cancel_vs_handoff.mutex.second_waiter.w{}", w), Arc::new(move |e| super::c05::handoff_vs_cancel(e, w, true))).bound(2));
        v.push(Scenario::new("C09", "cancel_vs_handoff", format!("cancel_vs_handoff.sem.w{}", w), Arc::new(move |e| super::c10::post_vs_giveup(e, w, true))).bound(2));
        v.push(Scenario::new("C09", "cancel_vs_handoff", format!("cancel_vs_handoff.rwlock_writer.w{}", w), Arc::new(move |e| super::c12::handoff_vs_cancel(e, w, false))).bound(2));
        v.push(Scenario::new("C09", "cancel_vs_handoff", format!("cancel_vs_handoff.rwlock_reader.w{}", w), Arc::new(move |e| super::c12::handoff_vs_cancel(e, w, true))).bound(2));
        v.push(Scenario::new("C09", "cancel_vs_handoff", format!("cancel_vs_handoff.condvar.w{}", w), Arc::new(move |e| super::c11::cv_forward_sb(e, w))).bound(2));
    }
    // a detached target: its stack (and Park) is destroyed wherever its last step happens to run
    for w in [1usize, 2] {
        v.push(Scenario::new("C09", "cancel_detached", format!("cancel.detached_parker.w{}", w), Arc::new(move |e| super::c02::detached_parker(e, w, true, 1))).bound(2));
    }
    // never cancelled: nobody observes a cancellation
    for p in [Prim::Mutex, Prim::Sem, Prim::MpmcRecv] {
        v.push(Scenario::new("C09", "no_cancel", format!("nocancel.{:?}.w2", p).to_lowercase(), Arc::new(move |e| run(e, 2, p, true, false, true))));
    }
    v.into_iter().map(|s| s.tier(quick).vt_horizon(100_000_000).horizon(6_000)).collect()
}
