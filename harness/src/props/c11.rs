//! C11 - Condvar loses no notification; Barrier / WaitGroup release exactly when due
use crate::engine::Engine;
use crate::explore::Scenario;
use crate::util::*;
use may::sync::{Barrier, Condvar, Mutex, WaitGroup};
use std::sync::atomic::{AtomicBool, AtomicU32, Ordering};
use std::sync::Arc;
use std::time::Duration;

static OCC: AtomicU32 = AtomicU32::new(0);
static WAITING: AtomicU32 = AtomicU32::new(0);
static RETURNED: AtomicU32 = AtomicU32::new(0);
static NOTIFIED_WITH_WAITER: AtomicU32 = AtomicU32::new(0);
static DOUBLE: AtomicBool = AtomicBool::new(false);
const MS: u64 = 1_000_000;

fn enter() {
    if OCC.fetch_add(1, Ordering::SeqCst) != 0 {
        DOUBLE.store(true, Ordering::SeqCst);
    }
}
fn leave() {
    OCC.fetch_sub(1, Ordering::SeqCst);
}

struct Pair {
    m: Mutex<u32>,
    cv: Condvar,
}

/// waiter ops: W wait until the predicate value is non-zero (wait in a loop), U one plain wait (may be woken once),
/// T wait_timeout(1ms) once, H wait_while(value == 0); notifier ops: n notify_one under the lock after setting the value,
/// N notify_all under the lock after setting the value, o notify_one outside the lock (value set under the lock first)
fn cv_ops(e: &'static Engine, p: &Pair, ops: &str) {
    for o in ops.chars() {
        match o {
            'W' | 'H' => {
                let mut g = p.m.lock().unwrap();
                enter();
                if o == 'H' {
                    leave();
                    WAITING.fetch_add(1, Ordering::SeqCst);
                    g = p.cv.wait_while(g, |v| *v == 0).unwrap();
                    WAITING.fetch_sub(1, Ordering::SeqCst);
                    enter();
                } else {
                    while *g == 0 {
                        leave();
                        WAITING.fetch_add(1, Ordering::SeqCst);
                        g = p.cv.wait(g).unwrap();
                        WAITING.fetch_sub(1, Ordering::SeqCst);
                        enter();
                    }
                }
                RETURNED.fetch_add(1, Ordering::SeqCst);
                leave();
                drop(g);
            }
            'T' => {
                let g = p.m.lock().unwrap();
                enter();
                if *g == 0 {
                    leave();
                    WAITING.fetch_add(1, Ordering::SeqCst);
                    let t0 = e.now();
                    let (g2, r) = p.cv.wait_timeout(g, Duration::from_millis(1)).unwrap();
                    let dt = e.now() - t0;
                    WAITING.fetch_sub(1, Ordering::SeqCst);
                    enter();
                    if r.timed_out() && dt < MS {
                        e.fail("timeout_early", &format!("wait_timeout(1ms) timed out after {} ns", dt));
                    }
                    leave();
                    drop(g2);
                } else {
                    leave();
                    drop(g);
                }
            }
            'n' | 'N' => {
                let mut g = p.m.lock().unwrap();
                enter();
                *g += 1;
                if WAITING.load(Ordering::SeqCst) > 0 {
                    NOTIFIED_WITH_WAITER.fetch_add(1, Ordering::SeqCst);
                }
                if o == 'n' {
                    p.cv.notify_one();
                } else {
                    p.cv.notify_all();
                }
                leave();
                drop(g);
            }
            'o' => {
                {
                    let mut g = p.m.lock().unwrap();
                    enter();
                    *g += 1;
                    leave();
                }
                p.cv.notify_one();
            }
            _ => unreachable!(),
        }
    }
}

fn cv_run(e: &'static Engine, workers: usize, parts: &'static [(char, &'static str)], main_ops: &'static str, cancel: Option<usize>) {
    if needs_rt(parts) {
        rt_init(workers);
    }
    let p = Arc::new(Pair { m: Mutex::new(0), cv: Condvar::new() });
    e.begin();
    let mut hs = vec![];
    for (k, o) in parts.iter() {
        let p = p.clone();
        hs.push(spawn_part(e, *k, move || cv_ops(e, &p, o)));
    }
    if let Some(c) = cancel {
        cancel_part(&hs[c]);
    }
    cv_ops(e, &p, main_ops);
    let mut out = String::new();
    for (i, h) in hs.into_iter().enumerate() {
        match join_part(e, h) {
            Ok(()) => out.push_str("ok "),
            Err(true) if cancel == Some(i) => out.push_str("cancel "),
            Err(true) => e.fail("cancel_unasked", "a participant ended with Cancel but was not cancelled"),
            Err(false) => e.fail("unexpected_panic", "a participant panicked"),
        }
    }
    if DOUBLE.load(Ordering::SeqCst) {
        e.fail("mutex_held_on_return", "two participants were inside the mutex: wait returned without re-acquiring it");
    }
    match p.m.try_lock() {
        Ok(_) => {}
        Err(_) => e.fail("mutex_not_released", "all participants are done but the mutex is not free (or poisoned)"),
    }
    e.note(&out);
}

/// forwarding clause: A (times out after 1ms / is cancelled) and B wait; exactly one notify_one is issued while both are
/// registered; if A did not consume it (timed out / ended by Cancel) B must be woken by it. A rescue notify_all after
/// 5 ms ends the scenario either way.
fn cv_forward(e: &'static Engine, workers: usize, cancel_a: bool, hold: bool) {
    static RESCUE: AtomicBool = AtomicBool::new(false);
    static A_NOTIFIED: AtomicBool = AtomicBool::new(false);
    static B_BEFORE_RESCUE: AtomicBool = AtomicBool::new(false);
    static BOTH: AtomicBool = AtomicBool::new(false);
    rt_init(workers);
    let p = Arc::new(Pair { m: Mutex::new(0), cv: Condvar::new() });
    e.begin();
    let pa = p.clone();
    let a = go!(move || {
        let g = pa.m.lock().unwrap();
        if WAITING.fetch_add(1, Ordering::SeqCst) == 1 {
            BOTH.store(true, Ordering::SeqCst);
        }
        if cancel_a {
            let _g = pa.cv.wait(g).unwrap();
            A_NOTIFIED.store(true, Ordering::SeqCst);
        } else {
            let (_g, r) = pa.cv.wait_timeout(g, Duration::from_millis(1)).unwrap();
            if !r.timed_out() {
                A_NOTIFIED.store(true, Ordering::SeqCst);
            }
        }
    });
    let pb = p.clone();
    let b = go!(move || {
        let g = pb.m.lock().unwrap();
        if WAITING.fetch_add(1, Ordering::SeqCst) == 1 {
            BOTH.store(true, Ordering::SeqCst);
        }
        let _g = pb.cv.wait(g).unwrap();
        if !RESCUE.load(Ordering::SeqCst) {
            B_BEFORE_RESCUE.store(true, Ordering::SeqCst);
        }
    });
    // both are registered once both counted themselves and the mutex could be taken again
    e.wait_flag(&BOTH);
    if hold {
        // the notifier owns the mutex while A's wait ends (timeout / cancel): A is popped by the notify_one
        // after its park has already ended and before it could run its epilogue
        let _g = p.m.lock().unwrap();
        if cancel_a {
            unsafe { a.coroutine().cancel() };
        }
        e.vsleep(2_000_000);
        p.cv.notify_one();
    } else {
        {
            let _g = p.m.lock().unwrap();
            p.cv.notify_one();
        }
        if cancel_a {
            unsafe { a.coroutine().cancel() };
        }
    }
    // give the single notification time to arrive, then release whoever is left
    let h = go!(|| may::coroutine::sleep(Duration::from_millis(5)));
    h.join().unwrap();
    {
        let _g = p.m.lock().unwrap();
        RESCUE.store(true, Ordering::SeqCst);
        p.cv.notify_all();
    }
    let ra = a.join();
    b.join().unwrap();
    let a_consumed = A_NOTIFIED.load(Ordering::SeqCst) && ra.is_ok();
    let b_ok = B_BEFORE_RESCUE.load(Ordering::SeqCst);
    if !a_consumed && !b_ok {
        e.fail("notification_lost", &format!("one notify_one with two registered waiters: A {} and B was not woken before the rescue", if cancel_a { "was cancelled" } else { "timed out" }));
    }
    e.note(&format!("a_consumed={} b_before_rescue={}", a_consumed, b_ok));
}

/// store-buffer member: A and B wait; A is cancelled and the single notify_one is issued in the instant in which A has
/// registered its release (label behind SyncBlocker::set_release): either A passes the notification on or the notifier does
pub fn cv_forward_sb(e: &'static Engine, workers: usize) {
    static RESCUE: AtomicBool = AtomicBool::new(false);
    static B_BEFORE_RESCUE: AtomicBool = AtomicBool::new(false);
    rt_init(workers);
    let p = Arc::new(Pair { m: Mutex::new(0), cv: Condvar::new() });
    e.begin();
    let pn = p.clone();
    let notifier = e.spawn("notifier", move || {
        e.wait_label("syncblocker.set_release");
        pn.cv.notify_one();
    });
    let pa = p.clone();
    let a = go!(move || {
        let g = pa.m.lock().unwrap();
        let _g = pa.cv.wait(g).unwrap();
    });
    // A is first in the queue
    e.quiesce();
    let pb = p.clone();
    let b = go!(move || {
        let g = pb.m.lock().unwrap();
        let _g = pb.cv.wait(g).unwrap();
        if !RESCUE.load(Ordering::SeqCst) {
            B_BEFORE_RESCUE.store(true, Ordering::SeqCst);
        }
    });
    e.quiesce();
    unsafe { a.coroutine().cancel() };
    let ra = a.join();
    e.join(notifier);
    e.quiesce();
    {
        let _g = p.m.lock().unwrap();
        RESCUE.store(true, Ordering::SeqCst);
        p.cv.notify_all();
    }
    b.join().unwrap();
    let b_ok = B_BEFORE_RESCUE.load(Ordering::SeqCst);
    if ra.is_err() && !b_ok {
        e.fail("notification_lost", "one notify_one with two registered waiters: A was cancelled and B was not woken before the rescue");
    }
    e.note(&format!("a={} b_before_rescue={} store_buffer={}", if ra.is_ok() { "ok" } else { "cancel" }, b_ok, e.tso_used()));
}

/// a waiter is cancelled while it re-acquires the mutex after a notification (cancellation is disabled there):
/// A and B wait; the notifier sets the predicate and notifies all while holding the mutex, cancels A, lets A work
/// through the cancel, then unlocks. Nobody may share the mutex afterwards and it must be free at the end.
/// `back_to_back`: the cancel comes when both waiters already sit in the re-lock, and the unlock follows at once: the
/// wake-up of the cancel and the hand-off of the unlock overlap
fn cv_cancel_during_relock(e: &'static Engine, workers: usize, back_to_back: bool) {
    static BOTH: AtomicBool = AtomicBool::new(false);
    rt_init(workers);
    let p = Arc::new(Pair { m: Mutex::new(0), cv: Condvar::new() });
    e.begin();
    let mk = |p: Arc<Pair>| {
        move || {
            let mut g = p.m.lock().unwrap();
            if WAITING.fetch_add(1, Ordering::SeqCst) == 1 {
                BOTH.store(true, Ordering::SeqCst);
            }
            while *g == 0 {
                g = p.cv.wait(g).unwrap();
            }
            // inside the mutex again
            enter();
            let v = *g;
            e.sched_point();
            *g = v + 1;
            leave();
            drop(g);
            // a second, cancellable call
            may::coroutine::sleep(Duration::from_millis(1));
        }
    };
    let a = go!(mk(p.clone()));
    let b = go!(mk(p.clone()));
    e.wait_flag(&BOTH);
    {
        let mut g = p.m.lock().unwrap();
        *g = 1;
        p.cv.notify_all();
        if back_to_back {
            e.quiesce();
            unsafe { a.coroutine().cancel() };
        } else {
            unsafe { a.coroutine().cancel() };
            // A is woken by the notification and by the cancel while the mutex is still held here
            e.vsleep(1_000_000);
        }
        enter();
        leave();
        drop(g);
    }
    let ra = a.join();
    if let Err(pl) = &ra {
        if pl.downcast_ref::<generator::Error>().is_none() {
            e.fail("unexpected_panic", &format!("the cancelled waiter ended with another panic: {:?}", e.panics().last()));
        }
    }
    if b.join().is_err() {
        e.fail("unexpected_panic", &format!("the other waiter panicked: {:?}", e.panics().last()));
    }
    if DOUBLE.load(Ordering::SeqCst) {
        e.fail("mutex_held_on_return", "two parties were inside the condvar's mutex at the same time");
    }
    // the mutex still works: lock / unlock twice
    for _ in 0..2 {
        match p.m.try_lock() {
            Ok(g) => drop(g),
            Err(std::sync::TryLockError::Poisoned(_)) => e.fail("mutex_poisoned", "the condvar's mutex is poisoned although only a cancellation unwound through it"),
            Err(std::sync::TryLockError::WouldBlock) => e.fail("mutex_not_released", "the condvar's mutex is still locked after everybody finished"),
        }
    }
    e.note(&format!("a={}", if ra.is_ok() { "ok" } else { "cancel" }));
}

fn barrier_run(e: &'static Engine, workers: usize, kinds: &'static [char], n: usize, gens: usize) {
    if kinds.contains(&'C') {
        rt_init(workers);
    }
    let b = Arc::new(Barrier::new(n));
    static ARRIVED: [AtomicU32; 4] = [AtomicU32::new(0), AtomicU32::new(0), AtomicU32::new(0), AtomicU32::new(0)];
    static LEADERS: [AtomicU32; 4] = [AtomicU32::new(0), AtomicU32::new(0), AtomicU32::new(0), AtomicU32::new(0)];
    e.begin();
    let body = move |b: Arc<Barrier>| {
        for g in 0..gens {
            ARRIVED[g].fetch_add(1, Ordering::SeqCst);
            let r = b.wait();
            let a = ARRIVED[g].load(Ordering::SeqCst);
            if (a as usize) < n {
                e.fail("barrier_early", &format!("a party left generation {} after only {} of {} arrivals", g, a, n));
            }
            if r.is_leader() {
                LEADERS[g].fetch_add(1, Ordering::SeqCst);
            }
        }
    };
    let mut hs = vec![];
    for k in kinds.iter() {
        let b = b.clone();
        hs.push(spawn_part(e, *k, move || body(b)));
    }
    // the main thread is the n-th party
    body(b.clone());
    for h in hs {
        if join_part(e, h).is_err() {
            e.fail("unexpected_panic", "a party panicked");
        }
    }
    for g in 0..gens {
        let l = LEADERS[g].load(Ordering::SeqCst);
        if l != 1 {
            e.fail("barrier_leader", &format!("generation {} had {} leaders", g, l));
        }
    }
    e.note("released");
}

/// Barrier(2), two generations: a coroutine party of generation 0 is cancelled in the instant the leader arrives, so that
/// its wait ends by cancellation *and* was notified: it hands the notification on, to whoever waits on the condvar by then -
/// the main thread, already waiting for generation 1 (a spurious wake-up there). The second party of generation 1
/// (`late_kind`) arrives only when the cancelled party has completely ended.
fn barrier_cancel(e: &'static Engine, workers: usize, late_kind: char) {
    rt_init(workers);
    let b = Arc::new(Barrier::new(2));
    static ARRIVED1: AtomicU32 = AtomicU32::new(0);
    static LEADERS1: AtomicU32 = AtomicU32::new(0);
    e.begin();
    struct FireOnDrop(Arc<may::sync::SyncFlag>);
    impl Drop for FireOnDrop {
        fn drop(&mut self) {
            self.0.fire();
        }
    }
    let go = Arc::new(may::sync::SyncFlag::new());
    let b1 = b.clone();
    let g1 = go.clone();
    let p1 = go!(move || {
        let _g = FireOnDrop(g1);
        b1.wait();
    });
    let b2 = b.clone();
    let main_passed = Arc::new(may::sync::SyncFlag::new());
    let mp = main_passed.clone();
    let late = spawn_part(e, late_kind, move || {
        // generation 0 belongs to P1 and the main thread
        go.wait();
        mp.wait();
        ARRIVED1.fetch_add(1, Ordering::SeqCst);
        if b2.wait().is_leader() {
            LEADERS1.fetch_add(1, Ordering::SeqCst);
        }
    });
    // P1 has arrived (it is counted) and sleeps in the barrier
    e.quiesce();
    unsafe { p1.coroutine().cancel() };
    // generation 0: the main thread is the last arrival
    b.wait();
    main_passed.fire();
    // generation 1
    ARRIVED1.fetch_add(1, Ordering::SeqCst);
    let r = b.wait();
    let a = ARRIVED1.load(Ordering::SeqCst);
    if a < 2 {
        e.fail("barrier_early", &format!("the main thread left generation 1 after only {} of 2 arrivals", a));
    }
    if r.is_leader() {
        LEADERS1.fetch_add(1, Ordering::SeqCst);
    }
    let r1 = p1.join();
    if let Err(p) = &r1 {
        if p.downcast_ref::<generator::Error>().is_none() {
            e.fail("unexpected_panic", "the cancelled party panicked with something else than Cancel");
        }
    }
    if join_part(e, late).is_err() {
        e.fail("unexpected_panic", "the late party panicked");
    }
    let l = LEADERS1.load(Ordering::SeqCst);
    if l != 1 {
        e.fail("barrier_leader", &format!("generation 1 had {} leaders", l));
    }
    e.note(&format!("p1={}", if r1.is_ok() { "ok" } else { "cancel" }));
}

fn wg_run(e: &'static Engine, workers: usize, kinds: &'static [char]) {
    if kinds.contains(&'C') {
        rt_init(workers);
    }
    static DROPPED: AtomicU32 = AtomicU32::new(0);
    let wg = WaitGroup::new();
    let clones: Vec<WaitGroup> = kinds.iter().map(|_| wg.clone()).collect();
    e.begin();
    let mut hs = vec![];
    for (k, c) in kinds.iter().zip(clones.into_iter()) {
        hs.push(spawn_part(e, *k, move || {
            e.sched_point();
            DROPPED.fetch_add(1, Ordering::SeqCst);
            drop(c);
        }));
    }
    wg.wait();
    let d = DROPPED.load(Ordering::SeqCst) as usize;
    if d != kinds.len() {
        e.fail("waitgroup_early", &format!("wait() returned after {} of {} clones were dropped", d, kinds.len()));
    }
    for h in hs {
        if join_part(e, h).is_err() {
            e.fail("unexpected_panic", "a party panicked");
        }
    }
    e.note("done");
}

/// stale queue entries: `stale` parties gave up on the condvar one after the other (T = wait_timeout(1ms) timed out,
/// X = cancelled inside wait) with no notify in between, then a live party waits and exactly one notify_one is issued
/// under the mutex: it must reach the live party, however many abandoned entries are queued in front of it
fn cv_stale_entries(e: &'static Engine, workers: usize, stale: &'static str, live: char) {
    rt_init(workers);
    let p = Arc::new(Pair { m: Mutex::new(0), cv: Condvar::new() });
    e.begin();
    let mut hs = vec![];
    for k in stale.chars() {
        let p2 = p.clone();
        let h = go!(move || {
            let g = p2.m.lock().unwrap();
            if k == 'T' {
                let (g, r) = p2.cv.wait_timeout(g, Duration::from_millis(1)).unwrap();
                drop(g);
                r.timed_out()
            } else {
                let g = p2.cv.wait(g).unwrap();
                drop(g);
                false
            }
        });
        hs.push((k, h));
    }
    // everybody is queued; the cancelled ones go first, the timed ones follow after 1 ms
    e.quiesce();
    for (k, h) in hs.iter() {
        if *k == 'X' {
            unsafe { h.coroutine().cancel() };
        }
    }
    for (k, h) in hs {
        match h.join() {
            Ok(true) if k == 'T' => {}
            Ok(_) => e.fail("spurious_return", "a wait returned although nobody notified and no timeout was due"),
            Err(pl) if k == 'X' && pl.downcast_ref::<generator::Error>().is_some() => {}
            Err(_) => e.fail("unexpected_panic", "a waiter panicked"),
        }
    }
    let p3 = p.clone();
    let w = spawn_part(e, live, move || cv_ops(e, &p3, "W"));
    // the live party is registered
    e.quiesce();
    if WAITING.load(Ordering::SeqCst) != 1 {
        e.fail("harness", "the live waiter is not waiting");
    }
    cv_ops(e, &p, "n");
    if join_part(e, w).is_err() {
        e.fail("unexpected_panic", "the live waiter panicked");
    }
    if RETURNED.load(Ordering::SeqCst) != 1 {
        e.fail("lost_notification", "notify_one with a waiting party woke nobody");
    }
    e.note(&format!("stale={} live={}", stale, live));
}

/// the condvar's mutex is poisoned while a party waits: the notifier panics holding the lock (after it has notified).
/// wait / wait_timeout then return Err(PoisonError(guard)) - with the mutex re-acquired, as std does. The waiter recovers
/// the guard and uses it while another party takes the (poisoned) lock too: never both inside.
pub fn cv_poisoned(e: &'static Engine, workers: usize, waiter: char, timed: bool) {
    rt_init(workers);
    let p = Arc::new(Pair { m: Mutex::new(0), cv: Condvar::new() });
    e.begin();
    let p1 = p.clone();
    let w = spawn_part(e, waiter, move || {
        let mut g = p1.m.lock().unwrap_or_else(|x| x.into_inner());
        enter();
        while *g == 0 {
            leave();
            WAITING.fetch_add(1, Ordering::SeqCst);
            g = if timed {
                match p1.cv.wait_timeout(g, Duration::from_millis(3)) {
                    Ok((g, _)) => g,
                    Err(x) => x.into_inner().0,
                }
            } else {
                match p1.cv.wait(g) {
                    Ok(g) => g,
                    Err(x) => x.into_inner(),
                }
            };
            WAITING.fetch_sub(1, Ordering::SeqCst);
            enter();
        }
        // the waiter believes it holds the mutex
        e.sched_point();
        *g += 1;
        RETURNED.fetch_add(1, Ordering::SeqCst);
        leave();
        drop(g);
    });
    e.quiesce();
    let p2 = p.clone();
    let n = go!(move || {
        let mut g = p2.m.lock().unwrap();
        enter();
        *g += 1;
        p2.cv.notify_one();
        leave();
        std::panic::panic_any(55u32);
    });
    let p3 = p.clone();
    let l = e.spawn("locker", move || {
        let mut g = p3.m.lock().unwrap_or_else(|x| x.into_inner());
        enter();
        e.sched_point();
        *g += 10;
        leave();
        drop(g);
    });
    let _ = n.join();
    if join_part(e, w).is_err() {
        e.fail("unexpected_panic", "the waiter panicked");
    }
    e.join(l);
    if DOUBLE.load(Ordering::SeqCst) {
        e.fail("mutex_held_on_return", "two participants were inside the mutex: wait returned without holding it");
    }
    if RETURNED.load(Ordering::SeqCst) != 1 {
        e.fail("lost_notification", "the waiter did not come back");
    }
    match p.m.try_lock() {
        Err(std::sync::TryLockError::WouldBlock) => e.fail("mutex_not_released", "all participants are done but the mutex is not free"),
        Ok(g) => {
            if *g != 12 {
                e.fail("lost_update", &format!("value {} after the three critical sections", *g));
            }
        }
        Err(std::sync::TryLockError::Poisoned(x)) => {
            if **x.get_ref() != 12 {
                e.fail("lost_update", &format!("value {} after the three critical sections", **x.get_ref()));
            }
        }
    }
    // and the lock still works for a blocking locker
    let p4 = p.clone();
    let t = e.spawn("late_locker", move || {
        let _g = p4.m.lock().unwrap_or_else(|x| x.into_inner());
    });
    e.join(t);
    e.note("ok");
}

fn mk_cv(workers: usize, parts: &'static [(char, &'static str)], main_ops: &'static str, cancel: Option<usize>) -> Scenario {
    let name = format!(
        "condvar.{}.main{}{}{}",
        parts_name(parts),
        main_ops,
        if needs_rt(parts) { format!(".w{}", workers) } else { String::new() },
        cancel.map(|c| format!(".cancel{}", c)).unwrap_or_default()
    );
    let s = Scenario::new("C11", "condvar", name, Arc::new(move |e| cv_run(e, workers, parts, main_ops, cancel)));
    let s = if needs_rt(parts) { s } else { s.fine() };
    if parts.iter().any(|p| p.1.contains('T')) {
        s.t2()
    } else {
        s
    }
}

pub fn build(quick: bool) -> Vec<Scenario> {
    let mut v = vec![];
    v.push(mk_cv(1, &[('T', "W")], "n", None));
    v.push(mk_cv(1, &[('T', "W"), ('T', "W")], "N", None));
    v.push(mk_cv(1, &[('T', "W"), ('T', "T")], "nn", None));
    v.push(mk_cv(1, &[('T', "H")], "o", None));
    for w in [1usize, 2] {
        v.push(mk_cv(w, &[('C', "W")], "n", None));
        v.push(mk_cv(w, &[('C', "H")], "o", None));
        v.push(mk_cv(w, &[('C', "W"), ('C', "W")], "N", None));
        v.push(mk_cv(w, &[('C', "W"), ('T', "W")], "nn", None));
        // one waiter times out / is cancelled while a single notify_one races: the other waiter must get it
        v.push(mk_cv(w, &[('C', "T"), ('C', "W")], "nn", None));
        v.push(mk_cv(w, &[('C', "W"), ('C', "W")], "nn", Some(0)));
        // the cancelled waiter sits in wait_timeout (its own error path): it must not keep the mutex
        v.push(mk_cv(w, &[('C', "T"), ('C', "W")], "nn", Some(0)));
        v.push(mk_cv(w, &[('C', "T"), ('T', "W")], "nn", Some(0)));
        v.push(Scenario::new("C11", "condvar_forward", format!("condvar.forward.timeout.w{}", w), Arc::new(move |e| cv_forward(e, w, false, false))).t2().vt_horizon(50_000_000));
        v.push(Scenario::new("C11", "condvar_forward", format!("condvar.forward.cancel.w{}", w), Arc::new(move |e| cv_forward(e, w, true, false))).vt_horizon(50_000_000));
        v.push(Scenario::new("C11", "condvar_forward", format!("condvar.forward.timeout.notifier_holds_mutex.w{}", w), Arc::new(move |e| cv_forward(e, w, false, true))).vt_horizon(50_000_000));
        v.push(Scenario::new("C11", "condvar_forward", format!("condvar.forward.cancel.notifier_holds_mutex.w{}", w), Arc::new(move |e| cv_forward(e, w, true, true))).vt_horizon(50_000_000));
        v.push(mk_cv(w, &[('C', "W"), ('C', "n")], "", None));
    }
    // the mutex gets poisoned while a party waits
    for (w, kind, timed) in [(1usize, 'C', false), (2, 'C', false), (1, 'T', false), (1, 'C', true), (2, 'T', true)] {
        v.push(Scenario::new("C11", "condvar_poisoned", format!("condvar.mutex_poisoned_while_waiting.{}{}.w{}", kind, if timed { ".wait_timeout" } else { "" }, w), Arc::new(move |e| cv_poisoned(e, w, kind, timed))).vt_horizon(50_000_000));
    }
    // abandoned queue entries in front of a live waiter
    for (w, stale, live) in [(1usize, "TT", 'C'), (1, "XX", 'C'), (2, "TX", 'T'), (1, "TTT", 'T'), (2, "XTX", 'C'), (1, "T", 'C'), (1, "X", 'T')] {
        v.push(Scenario::new("C11", "condvar_stale_entries", format!("condvar.stale_entries.{}.live_{}.w{}", stale, live, w), Arc::new(move |e| cv_stale_entries(e, w, stale, live))).vt_horizon(50_000_000).bound(1));
    }
    for w in [1usize, 2] {
        v.push(Scenario::new("C11", "condvar_cancel_relock", format!("condvar.cancel_during_relock.w{}", w), Arc::new(move |e| cv_cancel_during_relock(e, w, false))).vt_horizon(50_000_000));
        v.push(Scenario::new("C11", "condvar_cancel_relock", format!("condvar.cancel_during_relock.unlock_at_once.w{}", w), Arc::new(move |e| cv_cancel_during_relock(e, w, true))).vt_horizon(50_000_000).bound(2));
    }
    for w in [1usize, 2] {
        v.push(Scenario::new("C11", "condvar_store_buffer", format!("condvar.forward.cancel.store_buffer.w{}", w), Arc::new(move |e| cv_forward_sb(e, w))).tso(&["src/sync/blocking.rs"]).bound(2));
    }
    // barrier and wait group
    for w in [1usize, 2] {
        v.push(Scenario::new("C11", "barrier", format!("barrier.cancelled_party.late_T.w{}", w), Arc::new(move |e| barrier_cancel(e, w, 'T'))));
        v.push(Scenario::new("C11", "barrier", format!("barrier.cancelled_party.late_C.w{}", w), Arc::new(move |e| barrier_cancel(e, w, 'C'))));
    }
    v.push(Scenario::new("C11", "barrier", "barrier.T.n2.g2", Arc::new(|e| barrier_run(e, 1, &['T'], 2, 2))).fine());
    v.push(Scenario::new("C11", "barrier", "barrier.T_T.n3.g1", Arc::new(|e| barrier_run(e, 1, &['T', 'T'], 3, 1))).fine());
    v.push(Scenario::new("C11", "wait_group", "waitgroup.T_T", Arc::new(|e| wg_run(e, 1, &['T', 'T']))).fine());
    for w in [1usize, 2] {
        v.push(Scenario::new("C11", "barrier", format!("barrier.C.n2.g2.w{}", w), Arc::new(move |e| barrier_run(e, w, &['C'], 2, 2))));
        v.push(Scenario::new("C11", "barrier", format!("barrier.C_T.n3.g1.w{}", w), Arc::new(move |e| barrier_run(e, w, &['C', 'T'], 3, 1))));
        v.push(Scenario::new("C11", "wait_group", format!("waitgroup.C_C.w{}", w), Arc::new(move |e| wg_run(e, w, &['C', 'C']))));
    }
    if !quick {
        v.push(Scenario::new("C11", "barrier", "barrier.C_C.n3.g2.w2", Arc::new(|e| barrier_run(e, 2, &['C', 'C'], 3, 2))));
        v.push(mk_cv(2, &[('C', "W"), ('C', "W"), ('C', "T")], "nn", Some(1)));
    }
    v.into_iter().map(|s| s.tier(quick)).collect()
}
