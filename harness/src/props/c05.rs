//! C05 - Mutex: mutual exclusion and no stranded waiter, for threads and coroutines
use crate::engine::Engine;
use crate::explore::Scenario;
use crate::util::*;
use may::sync::{Condvar, Mutex};
use std::sync::atomic::{AtomicBool, AtomicU32, Ordering};
use std::sync::{Arc, TryLockError};

static OCC: AtomicU32 = AtomicU32::new(0);
static ENTRIES: AtomicU32 = AtomicU32::new(0);
static DOUBLE: AtomicBool = AtomicBool::new(false);

/// the critical section: occupancy counter plus a split read-modify-write of the protected value
fn critical(e: &'static Engine, v: &mut u32) {
    if OCC.fetch_add(1, Ordering::SeqCst) != 0 {
        DOUBLE.store(true, Ordering::SeqCst);
    }
    let x = *v;
    e.sched_point();
    *v = x + 1;
    ENTRIES.fetch_add(1, Ordering::SeqCst);
    OCC.fetch_sub(1, Ordering::SeqCst);
}

fn ops(e: &'static Engine, m: &Mutex<u32>, ops: &str) {
    for o in ops.chars() {
        match o {
            'L' => {
                let mut g = match m.lock() {
                    Ok(g) => g,
                    Err(_) => e.fail("poisoned", "lock() reported a poisoned mutex although nobody panicked"),
                };
                critical(e, &mut g);
            }
            'Y' => match m.try_lock() {
                Ok(mut g) => critical(e, &mut g),
                Err(TryLockError::WouldBlock) => {}
                Err(TryLockError::Poisoned(_)) => e.fail("poisoned", "try_lock() reported a poisoned mutex although nobody panicked"),
            },
            _ => unreachable!(),
        }
    }
}

/// `parts`: (kind, ops) with kind T = thread, C = coroutine; the main thread runs `main_ops` itself
fn run(e: &'static Engine, workers: usize, parts: &'static [(char, &'static str)], main_ops: &'static str, cancel: Option<usize>) {
    if needs_rt(parts) {
        rt_init(workers);
    }
    let m = Arc::new(Mutex::new(0u32));
    e.begin();
    let mut hs = vec![];
    for (k, o) in parts.iter() {
        let m = m.clone();
        hs.push(spawn_part(e, *k, move || ops(e, &m, o)));
    }
    if let Some(c) = cancel {
        cancel_part(&hs[c]);
    }
    ops(e, &m, main_ops);
    let mut out = String::new();
    for (i, h) in hs.into_iter().enumerate() {
        match join_part(e, h) {
            Ok(()) => out.push_str("ok "),
            Err(true) => {
                if cancel != Some(i) {
                    e.fail("cancel_unasked", &format!("participant {} ended with Cancel but was not cancelled", i));
                }
                out.push_str("cancel ");
            }
            Err(false) => e.fail("unexpected_panic", &format!("participant {} panicked", i)),
        }
    }
    if DOUBLE.load(Ordering::SeqCst) {
        e.fail("mutual_exclusion", "two participants were inside the critical section at the same time");
    }
    // the lock is free again and the protected value saw every critical section
    match m.try_lock() {
        Ok(g) => {
            let n = ENTRIES.load(Ordering::SeqCst);
            if *g != n {
                e.fail("lost_update", &format!("{} critical sections ran but the protected value is {}", n, *g));
            }
            out.push_str(&format!("entries={}", n));
        }
        Err(TryLockError::WouldBlock) => e.fail("not_released", "all participants are done but try_lock() says WouldBlock"),
        Err(TryLockError::Poisoned(_)) => e.fail("poisoned", "mutex poisoned although nobody panicked inside it"),
    }
    e.note(&out);
}

/// the main thread holds the lock when the window opens, so every participant queues up; it cancels one waiter and
/// then unlocks: the hand-off races with the cancellation
fn run_held(e: &'static Engine, workers: usize, parts: &'static [(char, &'static str)], cancel: usize) {
    rt_init(workers);
    let m = Arc::new(Mutex::new(0u32));
    let g = m.lock().unwrap();
    e.begin();
    let mut hs = vec![];
    for (k, o) in parts.iter() {
        let m = m.clone();
        hs.push(spawn_part(e, *k, move || ops(e, &m, o)));
    }
    cancel_part(&hs[cancel]);
    drop(g);
    let mut out = String::new();
    for (i, h) in hs.into_iter().enumerate() {
        match join_part(e, h) {
            Ok(()) => out.push_str("ok "),
            Err(true) if i == cancel => out.push_str("cancel "),
            Err(true) => e.fail("cancel_unasked", &format!("participant {} ended with Cancel but was not cancelled", i)),
            Err(false) => e.fail("unexpected_panic", &format!("participant {} panicked", i)),
        }
    }
    if DOUBLE.load(Ordering::SeqCst) {
        e.fail("mutual_exclusion", "two participants were inside the critical section at the same time");
    }
    match m.try_lock() {
        Ok(g) => {
            let n = ENTRIES.load(Ordering::SeqCst);
            if *g != n {
                e.fail("lost_update", &format!("{} critical sections ran but the protected value is {}", n, *g));
            }
        }
        Err(TryLockError::WouldBlock) => e.fail("not_released", "all participants are done but try_lock() says WouldBlock: the lock was handed to a dead waiter"),
        Err(TryLockError::Poisoned(_)) => e.fail("poisoned", "mutex poisoned although nobody panicked inside it"),
    }
    e.note(&out);
}

/// store-buffer member: a harness thread holds the lock, the coroutine W queues up and is cancelled; the holder unlocks
/// in the instant in which W has registered its release (label behind SyncBlocker::set_release), i.e. while W is between
/// "release := true" and its second look at "unparked". Whoever loses that handshake must pass the lock on.
pub fn handoff_vs_cancel(e: &'static Engine, workers: usize, second_waiter: bool) {
    rt_init(workers);
    let m = Arc::new(Mutex::new(0u32));
    static HELD: std::sync::atomic::AtomicBool = std::sync::atomic::AtomicBool::new(false);
    e.begin();
    let m1 = m.clone();
    let u = e.spawn("holder", move || {
        let g = m1.lock().unwrap();
        HELD.store(true, Ordering::SeqCst);
        e.wait_label("syncblocker.set_release");
        drop(g);
    });
    e.wait_flag(&HELD);
    let m2 = m.clone();
    let w = go!(move || {
        let mut g = m2.lock().unwrap();
        *g += 1;
    });
    let x = if second_waiter {
        let m3 = m.clone();
        Some(go!(move || {
            let mut g = m3.lock().unwrap();
            *g += 1;
        }))
    } else {
        None
    };
    // W (and X) are parked in lock()
    e.quiesce();
    unsafe { w.coroutine().cancel() };
    let rw = w.join();
    e.join(u);
    if let Some(x) = x {
        if x.join().is_err() {
            e.fail("unexpected_panic", "the second waiter did not get the lock normally");
        }
    }
    match m.try_lock() {
        Ok(_) => {}
        Err(TryLockError::WouldBlock) => e.fail("not_released", "everybody is done but try_lock() says WouldBlock: the lock was handed to the cancelled waiter and never passed on"),
        Err(TryLockError::Poisoned(_)) => e.fail("poisoned", "mutex poisoned although nobody panicked inside it"),
    }
    e.note(&format!("w={} store_buffer={}", if rw.is_ok() { "ok" } else { "cancel" }, e.tso_used()));
}

/// the mutex released and re-taken inside Condvar::wait / wait_timeout: participant 0 (a coroutine) enters the lock,
/// waits on the condvar (`timed`: wait_timeout(1ms)) and is cancelled there; the others use the lock meanwhile
/// (ops L / Y), the main thread finally notifies. Oracle as for `run`.
fn via_condvar(e: &'static Engine, workers: usize, timed: bool, others: &'static [(char, &'static str)], main_ops: &'static str, cancel: bool) {
    rt_init(workers);
    let m = Arc::new(Mutex::new(0u32));
    let cv = Arc::new(Condvar::new());
    e.begin();
    let (m0, cv0) = (m.clone(), cv.clone());
    let w = go!(move || {
        let mut g = m0.lock().unwrap();
        critical(e, &mut g);
        let mut g = if timed { cv0.wait_timeout(g, std::time::Duration::from_millis(1)).unwrap().0 } else { cv0.wait(g).unwrap() };
        critical(e, &mut g);
    });
    let mut hs = vec![];
    for (k, o) in others.iter() {
        let m = m.clone();
        hs.push(spawn_part(e, *k, move || ops(e, &m, o)));
    }
    if cancel {
        unsafe { w.coroutine().cancel() };
    }
    ops(e, &m, main_ops);
    if !timed && !cancel {
        // the waiter needs a notification; repeat it until the waiter is through (it may not be waiting yet)
        while !w.is_done() {
            cv.notify_one();
            e.vsleep(1_000_000);
        }
    }
    let mut out = String::new();
    match w.join() {
        Ok(()) => out.push_str("ok "),
        Err(p) if cancel && p.downcast_ref::<generator::Error>().is_some() => out.push_str("cancel "),
        Err(_) => e.fail("unexpected_panic", "the condvar waiter panicked"),
    }
    for (i, h) in hs.into_iter().enumerate() {
        match join_part(e, h) {
            Ok(()) => out.push_str("ok "),
            Err(true) => e.fail("cancel_unasked", &format!("participant {} ended with Cancel but was not cancelled", i + 1)),
            Err(false) => e.fail("unexpected_panic", &format!("participant {} panicked", i + 1)),
        }
    }
    if DOUBLE.load(Ordering::SeqCst) {
        e.fail("mutual_exclusion", "two participants were inside the critical section at the same time");
    }
    match m.try_lock() {
        Ok(g) => {
            let n = ENTRIES.load(Ordering::SeqCst);
            if *g != n {
                e.fail("lost_update", &format!("{} critical sections ran but the protected value is {}", n, *g));
            }
            out.push_str(&format!("entries={}", n));
        }
        Err(TryLockError::WouldBlock) => e.fail("not_released", "all participants are done but try_lock() says WouldBlock"),
        Err(TryLockError::Poisoned(_)) => e.fail("poisoned", "mutex poisoned although nobody panicked inside it"),
    }
    // and the lock still works: a blocking lock() returns
    let m2 = m.clone();
    let t = e.spawn("late_locker", move || {
        let mut g = m2.lock().unwrap_or_else(|p| p.into_inner());
        *g += 1;
    });
    e.join(t);
    e.note(&out);
}

/// The "first grab" branch of lock(): a locker whose try failed registers its blocker, then counts itself; if the count was 0
/// the lock was released in between and the locker serves the *oldest* registration, which need not be its own.
/// The main thread holds the lock; D and then B are each held (breakpoint) between their registration and their count;
/// the main thread unlocks (nobody is counted, nobody is woken) and lets both go. `rw`: the same on RwLock::write.
/// `cancel_head`: B is additionally held between its count (0: first grab) and its pop; D counts itself, parks and is
/// cancelled there, so the registration B pops belongs to a waiter that is gone and has left a release to forward.
/// Oracle: mutual exclusion, everybody who is not cancelled gets the lock, the lock is free at the end.
pub fn first_grab(e: &'static Engine, workers: usize, rw: bool, b_thread: bool, cancel_head: bool) {
    rt_init(workers);
    let m = Arc::new(Mutex::new(0u32));
    let l = Arc::new(may::sync::RwLock::new(0u32));
    let (reg, grab) = if rw { ("rwlock.lock.registered", "rwlock.lock.first_grab") } else { ("mutex.lock.registered", "mutex.lock.first_grab") };
    let gm = if rw { None } else { Some(m.lock().unwrap()) };
    let gl = if rw { Some(l.write().unwrap()) } else { None };
    e.begin();
    let body = move |m: Arc<Mutex<u32>>, l: Arc<may::sync::RwLock<u32>>| {
        if rw {
            let mut g = l.write().unwrap();
            critical(e, &mut g);
        } else {
            let mut g = m.lock().unwrap();
            critical(e, &mut g);
        }
    };
    let bp_d = e.break_at(reg);
    let (m1, l1) = (m.clone(), l.clone());
    let d = go!(move || body(m1, l1));
    e.wait_hit(bp_d);
    let bp_b = e.break_at(reg);
    let (m2, l2) = (m.clone(), l.clone());
    let b = spawn_part(e, if b_thread { 'T' } else { 'C' }, move || body(m2, l2));
    e.wait_hit(bp_b);
    // both are registered, nobody is counted: the unlock finds no waiter
    drop(gm);
    drop(gl);
    let mut d_cancelled = false;
    if cancel_head {
        let bp_g = e.break_at(grab);
        e.release(bp_b);
        e.wait_hit(bp_g);
        e.release(bp_d);
        // D has counted itself and is parked
        e.quiesce();
        unsafe { d.coroutine().cancel() };
        d_cancelled = true;
        e.quiesce();
        e.release(bp_g);
    } else {
        e.release(bp_b);
        e.release(bp_d);
    }
    match d.join() {
        Ok(()) => {}
        Err(p) if d_cancelled && p.downcast_ref::<generator::Error>().is_some() => {}
        Err(_) => e.fail("unexpected_panic", "the first registered locker panicked"),
    }
    if join_part(e, b).is_err() {
        e.fail("unexpected_panic", "the second registered locker panicked");
    }
    if DOUBLE.load(Ordering::SeqCst) {
        e.fail("mutual_exclusion", "two participants were inside the critical section at the same time");
    }
    let free = if rw { l.try_write().is_ok() } else { m.try_lock().is_ok() };
    if !free {
        e.fail("not_released", "everybody is done but the lock is not free");
    }
    // and it still works
    let (m3, l3) = (m.clone(), l.clone());
    let t = e.spawn("late_locker", move || body(m3, l3));
    e.join(t);
    e.note(&format!("entries={}", ENTRIES.load(Ordering::SeqCst)));
}

fn mk(workers: usize, parts: &'static [(char, &'static str)], main_ops: &'static str, cancel: Option<usize>) -> Scenario {
    let name = format!(
        "mutex.{}.main{}{}{}",
        parts_name(parts),
        main_ops,
        if needs_rt(parts) { format!(".w{}", workers) } else { String::new() },
        cancel.map(|c| format!(".cancel{}", c)).unwrap_or_default()
    );
    let s = Scenario::new("C05", "mutex", name, Arc::new(move |e| run(e, workers, parts, main_ops, cancel)));
    if needs_rt(parts) {
        s
    } else {
        s.fine()
    }
}

pub fn build(quick: bool) -> Vec<Scenario> {
    let mut v = vec![];
    let (d, dmax, budget) = if quick { (2, 4, 2500) } else { (3, 5, 60_000) };
    // component: threads only
    v.push(mk(1, &[('T', "L")], "L", None).bound(d + 1).deepen(dmax + 1, budget));
    v.push(mk(1, &[('T', "L"), ('T', "L")], "L", None).bound(d).deepen(dmax, budget));
    v.push(mk(1, &[('T', "LL")], "L", None).bound(d).deepen(dmax, budget));
    v.push(mk(1, &[('T', "Y"), ('T', "L")], "Y", None).bound(d).deepen(dmax, budget));
    // coroutines and mixes
    for w in [1usize, 2] {
        v.push(mk(w, &[('C', "L")], "L", None).bound(d).deepen(dmax, budget));
        v.push(mk(w, &[('C', "L"), ('C', "L")], "", None).bound(d).deepen(dmax, budget));
        v.push(mk(w, &[('C', "L"), ('C', "L")], "L", None).bound(d).deepen(dmax, budget));
        v.push(mk(w, &[('C', "LL"), ('T', "L")], "", None).bound(d).deepen(dmax, budget));
        v.push(mk(w, &[('C', "Y"), ('C', "L")], "Y", None).bound(d).deepen(dmax, budget));
        // a waiter is cancelled while the others keep using the lock
        v.push(mk(w, &[('C', "L"), ('C', "L")], "L", Some(0)).bound(d).deepen(dmax, budget));
        v.push(mk(w, &[('C', "L"), ('T', "L")], "L", Some(0)).bound(d).deepen(dmax, budget));
        v.push(mk(w, &[('C', "LL")], "L", Some(0)).bound(d).deepen(dmax, budget));
    }
    for w in [1usize, 2] {
        for parts in [&[('C', "L")][..], &[('C', "L"), ('C', "L")], &[('C', "L"), ('T', "L")]] {
            let parts: &'static [(char, &'static str)] = parts;
            v.push(Scenario::new("C05", "mutex_held", format!("mutex.held.{}.w{}.cancel0", parts_name(parts), w), Arc::new(move |e| run_held(e, w, parts, 0))).tier(quick));
        }
    }
    // the lock released and re-taken inside Condvar::wait / wait_timeout, with the waiter cancelled / timing out there
    for w in [1usize, 2] {
        for timed in [false, true] {
            for (others, main_ops, cancel) in [(&[('C', "L")][..], "Y", true), (&[('T', "L")][..], "L", true), (&[('C', "L")][..], "L", false)] {
                let others: &'static [(char, &'static str)] = others;
                if quick && w == 2 && !cancel {
                    continue;
                }
                v.push(
                    Scenario::new(
                        "C05",
                        "mutex_via_condvar",
                        format!("mutex.via_condvar.{}.{}.main{}.w{}{}", if timed { "wait_timeout" } else { "wait" }, parts_name(others), main_ops, w, if cancel { ".cancel0" } else { "" }),
                        Arc::new(move |e| via_condvar(e, w, timed, others, main_ops, cancel)),
                    )
                    .vt_horizon(100_000_000)
                    .tier(quick),
                );
            }
        }
    }
    // the first-grab branch of lock()
    for w in [1usize, 2] {
        for (bt, ch) in [(true, false), (false, false), (true, true), (false, true)] {
            // (two coroutines held at breakpoints keep two workers busy)
            if w == 1 && !bt {
                continue;
            }
            v.push(
                Scenario::new("C05", "mutex_first_grab", format!("mutex.first_grab.{}{}.w{}", if bt { "CT" } else { "CC" }, if ch { ".head_cancelled" } else { "" }, w), Arc::new(move |e| first_grab(e, w, false, bt, ch)))
                    .vt_horizon(100_000_000)
                    .bound(2),
            );
        }
    }
    // store-buffer model (x86-TSO on the shim atomics): the cancel / hand-off handshake of SyncBlocker
    for w in [1usize, 2] {
        v.push(Scenario::new("C05", "mutex_store_buffer", format!("mutex.handoff_vs_cancel.store_buffer.w{}", w), Arc::new(move |e| handoff_vs_cancel(e, w, false))).tso(&["src/sync/blocking.rs"]).bound(2));
    }
    v.push(Scenario::new("C05", "mutex_store_buffer", "mutex.handoff_vs_cancel.second_waiter.store_buffer.w1", Arc::new(move |e| handoff_vs_cancel(e, 1, true))).tso(&["src/sync/blocking.rs"]).bound(2));
    if !quick {
        v.push(mk(2, &[('C', "L"), ('C', "L"), ('C', "L")], "L", Some(1)).bound(2).deepen(3, budget));
        v.push(mk(2, &[('C', "L"), ('C', "L")], "L", None).fine().bound(2));
        v.push(mk(2, &[('C', "L"), ('C', "L")], "L", Some(0)).desc().bound(2).deepen(3, budget));
        v.push(mk(1, &[('C', "L"), ('C', "L")], "L", Some(0)).fine().bound(2));
    }
    v
}
