//! C14 - a scope is never left while one of its coroutines is still running
use crate::engine::Engine;
use crate::explore::Scenario;
use crate::util::*;
use may::coroutine;
use std::sync::atomic::{AtomicBool, AtomicU32, Ordering};
use std::sync::Arc;
use std::time::Duration;

static BAD: AtomicU32 = AtomicU32::new(0);
static STEPS: AtomicU32 = AtomicU32::new(0);
static CHILD_DONE: AtomicU32 = AtomicU32::new(0);

/// lives in the frame that encloses the scope; children observe "frame gone" without committing UB
struct Frame(Arc<AtomicBool>);
impl Drop for Frame {
    fn drop(&mut self) {
        self.0.store(false, Ordering::SeqCst);
    }
}

fn child(alive: &AtomicBool, yields: usize) {
    for _ in 0..yields {
        if !alive.load(Ordering::SeqCst) {
            BAD.fetch_add(1, Ordering::SeqCst);
        }
        STEPS.fetch_add(1, Ordering::SeqCst);
        coroutine::yield_now();
    }
    if !alive.load(Ordering::SeqCst) {
        BAD.fetch_add(1, Ordering::SeqCst);
    }
    CHILD_DONE.fetch_add(1, Ordering::SeqCst);
}

/// captured by move by a select coroutine; its destructor is still part of the coroutine and takes a while
struct LateGuard<'a>(&'a AtomicBool);
impl Drop for LateGuard<'_> {
    fn drop(&mut self) {
        // (the yield is a cancellation point: for a cancelled arm it may end in the Cancel panic, the look at the
        // frame happens all the same)
        struct Look<'a>(&'a AtomicBool);
        impl Drop for Look<'_> {
            fn drop(&mut self) {
                if !self.0.load(Ordering::SeqCst) {
                    BAD.fetch_add(1, Ordering::SeqCst);
                }
                STEPS.fetch_add(1, Ordering::SeqCst);
            }
        }
        let _l = Look(self.0);
        coroutine::yield_now();
    }
}

#[derive(Clone, Copy, PartialEq, Debug)]
enum Fault {
    Nothing,
    OwnerPanics,
    OwnerCancelled,
    /// the child spawned last panics while the children spawned before it are still running
    LastChildPanics,
}

#[derive(Clone, Copy, PartialEq, Debug)]
enum Kind {
    Scope,
    JoinMacro,
    Cqueue,
    /// a scoped child opens a scope of its own; the grandchildren borrow from the outermost frame
    Nested,
}

fn the_scope(e: &'static Engine, kind: Kind, alive: &Arc<AtomicBool>, children: usize, yields: usize, fault: Fault) -> u32 {
    let _frame = Frame(alive.clone());
    let a: &AtomicBool = alive;
    match kind {
        Kind::Scope => {
            let mut sum = 0;
            coroutine::scope(|s| {
                let hs: Vec<_> = (0..children)
                    .map(|i| unsafe {
                        s.spawn(move || {
                            if fault == Fault::LastChildPanics && i + 1 == children {
                                coroutine::yield_now();
                                CHILD_DONE.fetch_add(1, Ordering::SeqCst);
                                std::panic::panic_any(31u32);
                            }
                            child(a, yields);
                            10 + i as u32
                        })
                    })
                    .collect();
                if fault == Fault::OwnerPanics {
                    std::panic::panic_any(31u32);
                }
                if fault != Fault::LastChildPanics {
                    for h in hs {
                        sum += h.join();
                    }
                }
            });
            sum
        }
        Kind::JoinMacro => {
            if fault == Fault::LastChildPanics {
                join!(child(a, yields), {
                    coroutine::yield_now();
                    CHILD_DONE.fetch_add(1, Ordering::SeqCst);
                    std::panic::panic_any(31u32)
                });
            } else if children == 1 {
                join!(child(a, yields));
            } else {
                join!(child(a, yields), child(a, yields));
            }
            if fault == Fault::OwnerPanics {
                std::panic::panic_any(31u32);
            }
            0
        }
        Kind::Nested => {
            coroutine::scope(|s| {
                for _ in 0..children {
                    unsafe {
                        s.spawn(move || {
                            coroutine::scope(|s2| {
                                unsafe {
                                    s2.spawn(move || child(a, yields));
                                }
                                // the inner owner is busy itself before it reaches the end of its scope
                                coroutine::yield_now();
                            });
                            if !a.load(Ordering::SeqCst) {
                                BAD.fetch_add(1, Ordering::SeqCst);
                            }
                        });
                    }
                }
                if fault == Fault::OwnerPanics {
                    std::panic::panic_any(31u32);
                }
            });
            0
        }
        Kind::Cqueue => {
            may::cqueue::scope(|cq| {
                for i in 0..children {
                    // moved into the arm: dropped as the very last thing the select coroutine does, after its
                    // EventSender has reported Done
                    let late = LateGuard(a);
                    go!(cq, i, move |es| {
                        let _late = &late;
                        if fault == Fault::LastChildPanics {
                            if i + 1 == children {
                                CHILD_DONE.fetch_add(1, Ordering::SeqCst);
                                std::panic::panic_any(31u32);
                            }
                            // still busy when the owner comes back from its nap
                            coroutine::sleep(Duration::from_millis(2));
                        }
                        child(a, yields);
                        es.send(0);
                    });
                }
                if fault == Fault::OwnerPanics {
                    std::panic::panic_any(31u32);
                }
                if fault == Fault::LastChildPanics {
                    // no poll: the drop of the cqueue finds the panic of the last arm while the others are busy
                    if may::coroutine::is_coroutine() {
                        coroutine::sleep(Duration::from_millis(1));
                    } else {
                        e.vsleep(1_000_000);
                    }
                } else {
                    // consume one event only, the rest is left to the drop of the cqueue
                    let _ = cq.poll(None);
                }
            });
            0
        }
    }
}

fn run(e: &'static Engine, workers: usize, owner_co: bool, kind: Kind, children: usize, yields: usize, fault: Fault) {
    rt_init(workers);
    let alive = Arc::new(AtomicBool::new(true));
    e.begin();
    let mut out = String::new();
    if owner_co {
        let a = alive.clone();
        let o = go!(move || {
            if matches!(fault, Fault::OwnerPanics | Fault::LastChildPanics) {
                let r = std::panic::catch_unwind(std::panic::AssertUnwindSafe(|| the_scope(e, kind, &a, children, yields, fault)));
                match r {
                    Err(p) if p.downcast_ref::<u32>() == Some(&31) => 1000,
                    Err(_) => 2000,
                    Ok(v) => v,
                }
            } else {
                the_scope(e, kind, &a, children, yields, fault)
            }
        });
        if fault == Fault::OwnerCancelled {
            unsafe { o.coroutine().cancel() };
        }
        match o.join() {
            Ok(v) => out.push_str(&format!("owner={}", v)),
            Err(p) => {
                if p.downcast_ref::<generator::Error>().is_some() && fault == Fault::OwnerCancelled {
                    out.push_str("owner=cancel");
                } else {
                    e.fail("owner_panic", "the owner ended with an unexpected panic");
                }
            }
        }
    } else {
        let r = std::panic::catch_unwind(std::panic::AssertUnwindSafe(|| the_scope(e, kind, &alive, children, yields, fault)));
        match r {
            Ok(v) => out.push_str(&format!("owner={}", v)),
            Err(p) if p.downcast_ref::<u32>() == Some(&31) && matches!(fault, Fault::OwnerPanics | Fault::LastChildPanics) => out.push_str("owner=1000"),
            Err(_) => e.fail("owner_panic", "the owner thread saw an unexpected panic"),
        }
    }
    // the scope has been left: every child must have finished already
    let done_at_exit = CHILD_DONE.load(Ordering::SeqCst);
    // let stragglers run so that they can observe the dead frame
    let h = go!(|| coroutine::sleep(Duration::from_millis(5)));
    h.join().unwrap();
    let bad = BAD.load(Ordering::SeqCst);
    if bad > 0 {
        e.fail("frame_gone", &format!("a scoped coroutine ran {} step(s) after the enclosing frame was gone ({} of {} children had finished when the scope was left)", bad, done_at_exit, children));
    }
    if kind != Kind::Cqueue && (done_at_exit as usize) < children && out != "owner=cancel" {
        e.fail("scope_left_early", &format!("the scope was left with {} of {} children finished", done_at_exit, children));
    }
    // (a cqueue cancels its unfinished select coroutines when it is dropped: the last one may never reach its panic)
    if fault == Fault::LastChildPanics && out != "owner=1000" && !(kind == Kind::Cqueue && out == "owner=0") {
        e.fail("child_panic_not_propagated", &format!("the panic of a scoped child did not reach the owner: {}", out));
    }
    if kind == Kind::Scope && fault == Fault::Nothing {
        let want: u32 = (0..children).map(|i| 10 + i as u32).sum();
        if out != format!("owner={}", want) {
            e.fail("scope_results", &format!("scoped results: {} (expected the sum {})", out, want));
        }
    }
    e.note(&out);
}

/// safe code only: a select! arm contains join!; the other arm wins, so the losing arm is cancelled while it
/// waits for its scoped child, which keeps touching the arm's frame
fn select_join(e: &'static Engine, workers: usize) {
    rt_init(workers);
    let alive = Arc::new(AtomicBool::new(true));
    e.begin();
    let a = alive.clone();
    let o = go!(move || {
        let t = select!(
            _ = {
                let _frame = Frame(a.clone());
                let r: &AtomicBool = &a;
                join!(child(r, 3));
            } => {},
            _ = coroutine::yield_now() => {}
        );
        t
    });
    let t = match o.join() {
        Ok(t) => t,
        Err(_) => e.fail("owner_panic", "the selecting coroutine panicked"),
    };
    let h = go!(|| coroutine::sleep(Duration::from_millis(5)));
    h.join().unwrap();
    let bad = BAD.load(Ordering::SeqCst);
    if bad > 0 {
        e.fail("frame_gone", &format!("the child of a cancelled join! ran {} step(s) after the arm's frame was gone", bad));
    }
    e.note(&format!("token={}", t));
}

pub fn build(quick: bool) -> Vec<Scenario> {
    let mut v = vec![];
    for w in [1usize, 2] {
        for (owner_co, kind, children, yields, fault) in [
            (true, Kind::Scope, 1, 2, Fault::Nothing),
            (true, Kind::Scope, 2, 1, Fault::Nothing),
            (false, Kind::Scope, 2, 1, Fault::Nothing),
            (true, Kind::JoinMacro, 2, 1, Fault::Nothing),
            (true, Kind::Scope, 1, 2, Fault::OwnerPanics),
            (false, Kind::Scope, 1, 2, Fault::OwnerPanics),
            (true, Kind::Cqueue, 2, 1, Fault::Nothing),
            (false, Kind::Cqueue, 2, 1, Fault::Nothing),
            (true, Kind::Cqueue, 1, 2, Fault::OwnerPanics),
            (true, Kind::Scope, 2, 3, Fault::LastChildPanics),
            (false, Kind::Scope, 3, 2, Fault::LastChildPanics),
            (true, Kind::JoinMacro, 2, 3, Fault::LastChildPanics),
            (true, Kind::Scope, 1, 3, Fault::OwnerCancelled),
            (true, Kind::JoinMacro, 1, 3, Fault::OwnerCancelled),
            (true, Kind::Cqueue, 1, 3, Fault::OwnerCancelled),
            (false, Kind::Cqueue, 1, 2, Fault::OwnerPanics),
            (true, Kind::Cqueue, 2, 3, Fault::LastChildPanics),
            (false, Kind::Cqueue, 2, 3, Fault::LastChildPanics),
            (true, Kind::Nested, 1, 2, Fault::Nothing),
            (true, Kind::Nested, 2, 2, Fault::OwnerCancelled),
            (true, Kind::Nested, 1, 2, Fault::OwnerPanics),
            (false, Kind::Nested, 1, 2, Fault::OwnerPanics),
        ] {
            if quick && w == 1 && !owner_co {
                continue;
            }
            v.push(Scenario::new(
                "C14",
                "scope",
                format!("{:?}.{}.c{}y{}.{:?}.w{}", kind, if owner_co { "co_owner" } else { "thread_owner" }, children, yields, fault, w).to_lowercase(),
                Arc::new(move |e| run(e, w, owner_co, kind, children, yields, fault)),
            ));
        }
        v.push(Scenario::new("C14", "select_join", format!("select_join_loses.w{}", w), Arc::new(move |e| select_join(e, w))));
    }
    v.into_iter().map(|s| s.tier(quick).vt_horizon(100_000_000).horizon(4_000)).collect()
}
