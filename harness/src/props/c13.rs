//! C13 - a panic in one coroutine stays in that coroutine; lock poisoning follows std
use crate::engine::Engine;
use crate::explore::Scenario;
use crate::util::*;
use may::coroutine;
use may::sync::{Mutex, RwLock};
use std::sync::atomic::{AtomicBool, Ordering};
use std::sync::{Arc, TryLockError};
use std::time::Duration;

#[derive(Clone, Copy, PartialEq, Debug)]
enum Hold {
    Nothing,
    Mutex,
    RwWrite,
}

static HELD_AT_END: AtomicBool = AtomicBool::new(false);
static PANICKING: AtomicBool = AtomicBool::new(false);
static UNPOISONED_AFTER_PANIC: AtomicBool = AtomicBool::new(false);

/// P panics (or is cancelled) with a typed payload, optionally while holding a guard; a bystander and a later
/// locker run alongside; afterwards a fresh coroutine reuses the recycled stack (pool capacity 1)
fn panic_iso(e: &'static Engine, workers: usize, yield_before: bool, hold: Hold, cancel_instead: bool, thread_locker: bool) {
    rt_init_opts(workers, 1, 0x4000, 3_600_000_000_000);
    let m = Arc::new(Mutex::new(0u32));
    let rw = Arc::new(RwLock::new(0u32));
    e.begin();
    let (m1, rw1) = (m.clone(), rw.clone());
    let p = go!(move || {
        if yield_before {
            coroutine::yield_now();
        }
        let _g1;
        let _g2;
        match hold {
            Hold::Nothing => {}
            Hold::Mutex => _g1 = m1.lock().unwrap(),
            Hold::RwWrite => _g2 = rw1.write().unwrap(),
        }
        HELD_AT_END.store(hold != Hold::Nothing, Ordering::SeqCst);
        if cancel_instead {
            // wait to be cancelled while holding the guard
            loop {
                coroutine::park();
            }
        } else {
            coroutine::yield_now();
            // set while the guard is still held: whoever gets the lock afterwards got it from the panic unwind
            PANICKING.store(true, Ordering::SeqCst);
            std::panic::panic_any(77u32);
        }
    });
    let b = go!(|| {
        coroutine::yield_now();
        coroutine::yield_now();
        5u32
    });
    let (m2, rw2) = (m.clone(), rw.clone());
    // a locker that may come before, during or after the panic: it must never hang
    static LOCKER_RESULT: std::sync::atomic::AtomicU32 = std::sync::atomic::AtomicU32::new(0);
    let locker = move || match hold {
        Hold::Nothing => 0u32,
        Hold::Mutex => match m2.lock() {
            Ok(_g) => {
                if PANICKING.load(Ordering::SeqCst) {
                    UNPOISONED_AFTER_PANIC.store(true, Ordering::SeqCst);
                }
                1
            }
            Err(_) => 2,
        },
        Hold::RwWrite => match rw2.read() {
            Ok(_g) => {
                if PANICKING.load(Ordering::SeqCst) {
                    UNPOISONED_AFTER_PANIC.store(true, Ordering::SeqCst);
                }
                1
            }
            Err(_) => 2,
        },
    };
    // the locker is a coroutine or a plain thread (a thread woken by the hand-off runs on its own)
    let (l, lt) = if thread_locker {
        (None, Some(e.spawn("locker", move || LOCKER_RESULT.store(locker(), Ordering::SeqCst))))
    } else {
        (Some(go!(locker)), None)
    };
    // a prober thread that tries the lock from the moment the holder starts to panic: whatever it gets
    // was released by the unwind and must already be poisoned
    if hold != Hold::Nothing && !cancel_instead {
        let (m3, rw3) = (m.clone(), rw.clone());
        e.spawn("prober", move || {
            e.wait_flag(&PANICKING);
            for _ in 0..3 {
                let got = match hold {
                    Hold::Mutex => match m3.try_lock() {
                        Ok(_) => Some(true),
                        Err(TryLockError::Poisoned(_)) => Some(false),
                        Err(TryLockError::WouldBlock) => None,
                    },
                    _ => match rw3.try_write() {
                        Ok(_) => Some(true),
                        Err(TryLockError::Poisoned(_)) => Some(false),
                        Err(TryLockError::WouldBlock) => None,
                    },
                };
                match got {
                    Some(true) => {
                        UNPOISONED_AFTER_PANIC.store(true, Ordering::SeqCst);
                        break;
                    }
                    Some(false) => break,
                    None => e.sched_point(),
                }
            }
        });
    }
    if cancel_instead {
        unsafe { p.coroutine().cancel() };
    }
    let rp = p.join();
    match rp {
        Ok(()) => e.fail("panic_lost", "join() of the panicking coroutine returned Ok"),
        Err(pl) => {
            if cancel_instead {
                if pl.downcast_ref::<generator::Error>().is_none() {
                    e.fail("payload", "the cancelled coroutine did not report Cancel");
                }
            } else if pl.downcast_ref::<u32>() != Some(&77) {
                e.fail("payload", "the panic payload did not arrive at the JoinHandle");
            }
        }
    }
    match b.join() {
        Ok(5) => {}
        _ => e.fail("bystander", "a bystander coroutine did not return its value"),
    }
    let lr = match l {
        Some(l) => match l.join() {
            Ok(v) => v,
            Err(_) => e.fail("bystander", "the locker coroutine panicked"),
        },
        None => {
            e.join(lt.unwrap());
            LOCKER_RESULT.load(Ordering::SeqCst)
        }
    };
    e.join_all();
    if UNPOISONED_AFTER_PANIC.load(Ordering::SeqCst) {
        e.fail("poison_visible_on_release", "a locker got the lock from the guard dropped by the panic and saw it unpoisoned (Ok)");
    }
    // a later spawn on every worker, reusing the recycled stack
    for i in 0..workers + 1 {
        let h = go!(move || {
            coroutine::yield_now();
            9u32 + i as u32
        });
        match h.join() {
            Ok(v) if v == 9 + i as u32 => {}
            _ => e.fail("later_spawn", "a coroutine spawned after the panic did not run normally"),
        }
    }
    // poisoning and release
    let panicked_inside = !cancel_instead;
    match hold {
        Hold::Nothing => {}
        Hold::Mutex => {
            if m.is_poisoned() != panicked_inside {
                e.fail("poison_flag", &format!("Mutex::is_poisoned() = {} after {}", m.is_poisoned(), if cancel_instead { "a cancellation unwind" } else { "a panic inside the guard" }));
            }
            match m.try_lock() {
                Err(TryLockError::WouldBlock) => e.fail("not_released", "the guard dropped by the unwind did not release the Mutex"),
                Ok(_) if panicked_inside => e.fail("poison_flag", "try_lock() returned Ok on a poisoned Mutex"),
                _ => {}
            }
        }
        Hold::RwWrite => {
            if rw.is_poisoned() != panicked_inside {
                e.fail("poison_flag", &format!("RwLock::is_poisoned() = {} after {}", rw.is_poisoned(), if cancel_instead { "a cancellation unwind" } else { "a panic inside the guard" }));
            }
            match rw.try_write() {
                Err(TryLockError::WouldBlock) => e.fail("not_released", "the write guard dropped by the unwind did not release the RwLock"),
                Ok(_) if panicked_inside => e.fail("poison_flag", "try_write() returned Ok on a poisoned RwLock"),
                _ => {}
            }
        }
    }
    e.note(&format!("locker={}", lr));
}

/// a scoped child / a select arm panics: the owner re-raises the payload, nothing else is affected
static SIBLING_DONE: AtomicBool = AtomicBool::new(false);
static SIBLING_ABANDONED: AtomicBool = AtomicBool::new(false);

/// `remove_other`: (select) a third arm is removed before the polling starts, its end by cancellation is consumed too;
/// (scope) the panicking child is the one spawned last
fn owner_reraise(e: &'static Engine, workers: usize, select: bool, remove_other: bool) {
    rt_init_opts(workers, 1, 0x4000, 3_600_000_000_000);
    e.begin();
    let o = go!(move || {
        let r = std::panic::catch_unwind(|| {
            if select {
                may::cqueue::scope(|cq| {
                    go!(cq, 0, |es| {
                        coroutine::yield_now();
                        if es.get_token() == 0 {
                            std::panic::panic_any(66u32);
                        }
                    });
                    go!(cq, 1, |es| {
                        coroutine::yield_now();
                        es.send(0);
                    });
                    if remove_other {
                        let sel = go!(cq, 2, |es| {
                            loop {
                                coroutine::park();
                                if es.get_token() == 99 {
                                    break;
                                }
                            }
                        });
                        sel.remove();
                    }
                    // poll until the panic of arm 0 surfaces or everything is finished
                    loop {
                        match cq.poll(None) {
                            Ok(_) => {}
                            Err(_) => break,
                        }
                    }
                });
            } else if remove_other {
                // (scope only) the panicking child is spawned last, its sibling is still busy when the panic is re-raised
                coroutine::scope(|s| {
                    go!(s, || {
                        for _ in 0..3 {
                            coroutine::yield_now();
                        }
                        SIBLING_DONE.store(true, Ordering::SeqCst);
                    });
                    go!(s, || {
                        coroutine::yield_now();
                        std::panic::panic_any(66u32);
                    });
                });
            } else {
                coroutine::scope(|s| {
                    go!(s, || {
                        coroutine::yield_now();
                        std::panic::panic_any(66u32);
                    });
                    go!(s, || {
                        coroutine::yield_now();
                        SIBLING_DONE.store(true, Ordering::SeqCst);
                    });
                });
            }
        });
        if !select && !SIBLING_DONE.load(Ordering::SeqCst) {
            SIBLING_ABANDONED.store(true, Ordering::SeqCst);
        }
        match r {
            Ok(()) => 0u32,
            Err(p) => {
                if p.downcast_ref::<u32>() == Some(&66) {
                    1
                } else {
                    2
                }
            }
        }
    });
    let b = go!(|| {
        coroutine::yield_now();
        5u32
    });
    match o.join() {
        Ok(1) => {}
        Ok(0) => e.fail("not_reraised", "the child's panic was not re-raised in the owner"),
        Ok(_) => e.fail("payload", "the owner saw a different panic payload"),
        Err(_) => e.fail("owner_died", "the owner coroutine itself ended with a panic"),
    }
    match b.join() {
        Ok(5) => {}
        _ => e.fail("bystander", "a bystander coroutine did not return its value"),
    }
    if SIBLING_ABANDONED.load(Ordering::SeqCst) {
        e.fail("sibling_abandoned", "the owner got the child's panic while the child's sibling was still running: the scope was left early");
    }
    let h = go!(|| 9u32);
    if h.join().ok() != Some(9) {
        e.fail("later_spawn", "a coroutine spawned after the panic did not run normally");
    }
    e.note("reraised");
}

#[derive(Debug)]
struct Own(u32);
static DETACHED_LEFT: std::sync::atomic::AtomicU32 = std::sync::atomic::AtomicU32::new(0);
static ALL_ENDED: AtomicBool = AtomicBool::new(false);
static LATER_PARKED: AtomicBool = AtomicBool::new(false);

struct CountEnd;
impl Drop for CountEnd {
    fn drop(&mut self) {
        if DETACHED_LEFT.fetch_sub(1, Ordering::SeqCst) == 1 {
            ALL_ENDED.store(true, Ordering::SeqCst);
        }
    }
}

/// `n` fire-and-forget coroutines (JoinHandle dropped at once) panic; later spawns over the reused pool (capacity 1) end
/// normally, by cancellation, by their own panic, or run a select! in which nobody panics: each gets exactly its own result
fn detached_panic(e: &'static Engine, workers: usize, n: usize) {
    rt_init_opts(workers, 1, 0x4000, 3_600_000_000_000);
    DETACHED_LEFT.store(n as u32, Ordering::SeqCst);
    e.begin();
    for i in 0..n {
        drop(go!(move || {
            let _c = CountEnd;
            if i % 2 == 1 {
                coroutine::yield_now();
            }
            std::panic::panic_any(format!("boom in detached coroutine {}", i));
        }));
    }
    let b = go!(|| {
        coroutine::yield_now();
        5u32
    });
    if b.join().ok() != Some(5) {
        e.fail("bystander", "a bystander coroutine did not run normally next to the detached panics");
    }
    e.wait_flag(&ALL_ENDED);
    e.quiesce();
    for round in 0..workers + 1 {
        // ends by cancellation: Cancel and nothing else
        LATER_PARKED.store(false, Ordering::SeqCst);
        let h = go!(|| {
            LATER_PARKED.store(true, Ordering::SeqCst);
            loop {
                coroutine::park();
            }
        });
        e.wait_flag(&LATER_PARKED);
        unsafe { h.coroutine().cancel() };
        match h.join() {
            Ok(()) => e.fail("later_spawn", "a cancelled later spawn returned Ok"),
            Err(p) => {
                if !matches!(p.downcast_ref::<generator::Error>(), Some(generator::Error::Cancel)) {
                    e.fail("later_spawn", &format!("round {}: the join of a cancelled later spawn delivered a foreign payload instead of Cancel", round));
                }
            }
        }
        // its own panic
        let h = go!(move || {
            coroutine::yield_now();
            std::panic::panic_any(Own(31 + round as u32));
        });
        match h.join() {
            Err(p) if matches!(p.downcast_ref::<Own>(), Some(Own(v)) if *v == 31 + round as u32) => {}
            _ => e.fail("later_spawn", "a later spawn that panics did not deliver its own payload"),
        }
        // a select! in which nobody panics: the losing arm is cancelled by the cqueue
        let h = go!(|| {
            let (_tx, rx) = may::sync::mpsc::channel::<u32>();
            let id = select!(
                _ = coroutine::yield_now() => {},
                _ = rx.recv() => {}
            );
            id
        });
        match h.join() {
            Ok(0) => {}
            Ok(v) => e.fail("later_spawn", &format!("select! chose arm {} (its channel never had a value)", v)),
            Err(_) => e.fail("later_spawn", "a select! in which nobody panicked re-raised a panic in its owner"),
        }
    }
    e.note("ok");
}

/// the unwind of the panicking coroutine crosses a suspension: a value on its stack has a destructor that waits
/// (`how` 0: coroutine::sleep(1 ms), the coroutine goes on on the timer thread; 1: a coroutine::scope whose child is
/// still running, the owner's scope waits for it while unwinding; 2: yield_now). Afterwards every worker must still
/// run coroutines normally: `later` coroutines are spawned, parked and cancelled - each must end with Cancel - and one
/// more panics while holding a Mutex, which must be poisoned.
fn panic_across_suspension(e: &'static Engine, workers: usize, how: u8, later: usize) {
    rt_init(workers);
    struct SlowDrop(u8);
    impl Drop for SlowDrop {
        fn drop(&mut self) {
            match self.0 {
                0 => coroutine::sleep(Duration::from_millis(1)),
                _ => coroutine::yield_now(),
            }
        }
    }
    static PARKED: std::sync::atomic::AtomicU32 = std::sync::atomic::AtomicU32::new(0);
    e.begin();
    let p = go!(move || {
        if how == 1 {
            coroutine::scope(|s| {
                unsafe {
                    s.spawn(|| {
                        coroutine::yield_now();
                        coroutine::sleep(Duration::from_millis(1));
                    });
                }
                std::panic::panic_any(31u32);
            });
        } else {
            let _d = SlowDrop(how);
            std::panic::panic_any(31u32);
        }
    });
    match p.join() {
        Err(pl) if pl.downcast_ref::<u32>() == Some(&31) => {}
        _ => e.fail("payload", "the panic payload did not reach the JoinHandle"),
    }
    e.quiesce();
    // later coroutines on every worker: parked, then cancelled
    let hs: Vec<_> = (0..later)
        .map(|_| {
            go!(|| {
                PARKED.fetch_add(1, Ordering::SeqCst);
                coroutine::park();
                coroutine::sleep(Duration::from_millis(1));
                7u32
            })
        })
        .collect();
    e.quiesce();
    if PARKED.load(Ordering::SeqCst) as usize != later {
        e.fail("later_spawn_stuck", "a coroutine spawned after the panic did not run");
    }
    for h in hs.iter() {
        unsafe { h.coroutine().cancel() };
    }
    for (i, h) in hs.into_iter().enumerate() {
        match h.join() {
            Err(pl) if pl.downcast_ref::<generator::Error>().is_some() => {}
            Ok(_) => e.fail("later_cancel_ignored", &format!("later coroutine {} was cancelled while parked but ran on to its end", i)),
            Err(_) => e.fail("unexpected_panic", "a later coroutine ended with a foreign panic"),
        }
    }
    // and poisoning still works on every worker
    let m = Arc::new(Mutex::new(0u32));
    for i in 0..later {
        let m2 = m.clone();
        let h = go!(move || {
            let _g = m2.lock().unwrap_or_else(|p| p.into_inner());
            std::panic::panic_any(32u32);
        });
        let _ = h.join();
        if !m.is_poisoned() {
            e.fail("not_poisoned", &format!("later coroutine {} panicked holding the mutex but it is not poisoned", i));
        }
    }
    e.note("ok");
}

/// std keeps the "is this thread panicking" counter per OS thread. A coroutine X panics and its unwind suspends in a
/// destructor (a sleep; a coroutine::scope waiting for a child or a cqueue drain do the same): the worker goes on to run
/// other coroutines with the counter still raised. An innocent coroutine B that the worker runs meanwhile drops a guard
/// of a may::sync::Mutex (`std_mutex`: of a std Mutex) it took earlier: nobody panicked while holding it, it must not
/// be poisoned. `earlier`: before all that, one coroutine per worker went through such an unwind and finished it on
/// the timer thread, which leaves the workers' counters raised for good (std's global fast path hides that until the
/// next panic is in flight).
fn stale_panic_counter(e: &'static Engine, workers: usize, std_mutex: bool, earlier: bool) {
    rt_init(workers);
    struct SleepDrop(u64);
    impl Drop for SleepDrop {
        fn drop(&mut self) {
            coroutine::sleep(Duration::from_millis(self.0));
        }
    }
    static HOLDING: AtomicBool = AtomicBool::new(false);
    static X_UNWINDING: AtomicBool = AtomicBool::new(false);
    static SEEN: std::sync::atomic::AtomicU32 = std::sync::atomic::AtomicU32::new(0);
    struct Flag;
    impl Drop for Flag {
        fn drop(&mut self) {
            X_UNWINDING.store(true, Ordering::SeqCst);
        }
    }
    e.begin();
    for _ in 0..if earlier { workers } else { 0 } {
        let p = go!(|| {
            let _d = SleepDrop(1);
            std::panic::panic_any(31u32);
        });
        let _ = p.join();
    }
    e.quiesce();
    let m = Arc::new(Mutex::new(0u32));
    let sm = Arc::new(std::sync::Mutex::new(0u32));
    let (m2, sm2) = (m.clone(), sm.clone());
    let b = go!(move || {
        let g1 = if std_mutex { None } else { Some(m2.lock().unwrap()) };
        let g2 = if std_mutex { Some(sm2.lock().unwrap()) } else { None };
        HOLDING.store(true, Ordering::SeqCst);
        coroutine::park();
        SEEN.store(1 + std::thread::panicking() as u32, Ordering::SeqCst);
        drop(g1);
        drop(g2);
    });
    e.wait_flag(&HOLDING);
    e.quiesce();
    let x = go!(|| {
        let _d = SleepDrop(2);
        let _f = Flag;
        std::panic::panic_any(33u32);
    });
    // (no quiescence here: the clock would advance and X would finish its unwind)
    e.wait_flag(&X_UNWINDING);
    b.coroutine().unpark();
    if b.join().is_err() {
        e.fail("unexpected_panic", "the innocent coroutine panicked");
    }
    let _ = x.join();
    let poisoned = if std_mutex { sm.is_poisoned() } else { m.is_poisoned() };
    if poisoned {
        e.fail("spurious_poison", "a mutex whose holder never panicked is poisoned: thread::panicking() was true on the holder's worker because another coroutine's unwind is suspended there (or left that thread for another one earlier)");
    }
    e.note(&format!("holder_saw_panicking={}", SEEN.load(Ordering::SeqCst) as i32 - 1));
}

pub fn build(quick: bool) -> Vec<Scenario> {
    let mut v = vec![];
    // the panic poisons a mutex that a Condvar waiter is about to take back: the waiter gets the poisoned guard with the
    // mutex held, later lockers still get the lock
    for (w, kind, timed) in [(1usize, 'C', false), (2, 'T', false), (1, 'C', true)] {
        v.push(Scenario::new("C13", "panic_poisons_condvar_mutex", format!("panic.poisons_mutex_of_condvar_waiter.{}{}.w{}", kind, if timed { ".wait_timeout" } else { "" }, w), Arc::new(move |e| super::c11::cv_poisoned(e, w, kind, timed))).vt_horizon(50_000_000));
    }
    for w in [1usize, 2] {
        for (stdm, earlier) in [(false, false), (true, false), (false, true)] {
            v.push(
                Scenario::new(
                    "C13",
                    "unwind_suspended",
                    format!("panic.unwind_suspended_on_worker.{}{}.w{}", if stdm { "std_mutex" } else { "may_mutex" }, if earlier { ".after_earlier_unwinds" } else { "" }, w),
                    Arc::new(move |e| stale_panic_counter(e, w, stdm, earlier)),
                )
                .vt_horizon(100_000_000)
                .bound(1),
            );
        }
    }
    {
        for w in [1usize, 2] {
            for how in [0u8, 1, 2] {
                if quick && how == 2 {
                    continue;
                }
                v.push(Scenario::new("C13", "panic_across_suspension", format!("panic.unwind_crosses_suspension.how{}.w{}", how, w), Arc::new(move |e| panic_across_suspension(e, w, how, w + 1))).vt_horizon(100_000_000));
            }
        }
    }
    v.push(Scenario::new("C13", "detached_panic", "detached_panic.n1.w1", Arc::new(move |e| detached_panic(e, 1, 1))));
    v.push(Scenario::new("C13", "detached_panic", "detached_panic.n2.w2", Arc::new(move |e| detached_panic(e, 2, 2))));
    if !quick {
        v.push(Scenario::new("C13", "detached_panic", "detached_panic.n3.w1", Arc::new(move |e| detached_panic(e, 1, 3))));
        v.push(Scenario::new("C13", "detached_panic", "detached_panic.n3.w2", Arc::new(move |e| detached_panic(e, 2, 3))));
    }
    for w in [1usize, 2] {
        for (yb, hold, cancel) in [
            (false, Hold::Nothing, false),
            (true, Hold::Nothing, false),
            (false, Hold::Mutex, false),
            (true, Hold::Mutex, false),
            (false, Hold::RwWrite, false),
            (false, Hold::Mutex, true),
            (false, Hold::RwWrite, true),
        ] {
            if quick && w == 2 && yb {
                continue;
            }
            v.push(Scenario::new(
                "C13",
                "panic_isolation",
                format!("panic.{}{:?}{}.w{}", if yb { "yield_first." } else { "" }, hold, if cancel { ".cancel_unwind" } else { "" }, w),
                Arc::new(move |e| panic_iso(e, w, yb, hold, cancel, false)),
            ));
        }
        for hold in [Hold::Mutex, Hold::RwWrite] {
            v.push(Scenario::new("C13", "panic_isolation", format!("panic.{:?}.thread_locker.w{}", hold, w), Arc::new(move |e| panic_iso(e, w, false, hold, false, true))));
        }
        v.push(Scenario::new("C13", "owner_reraise", format!("scope_child_panic.w{}", w), Arc::new(move |e| owner_reraise(e, w, false, false))));
        v.push(Scenario::new("C13", "owner_reraise", format!("scope_last_child_panics.w{}", w), Arc::new(move |e| owner_reraise(e, w, false, true))));
        v.push(Scenario::new("C13", "owner_reraise", format!("select_arm_panic.w{}", w), Arc::new(move |e| owner_reraise(e, w, true, false))));
        v.push(Scenario::new("C13", "owner_reraise", format!("select_arm_panic.other_arm_removed.w{}", w), Arc::new(move |e| owner_reraise(e, w, true, true))));
    }
    v.into_iter().map(|s| s.tier(quick)).collect()
}
