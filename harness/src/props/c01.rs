//! C01 - every spawned coroutine runs exactly once; join() reports its true outcome (runtime, coarse)
use crate::engine::Engine;
use crate::explore::Scenario;
use crate::util::*;
use may::coroutine;
use std::sync::atomic::{AtomicBool, AtomicU32, Ordering};
use std::sync::Arc;
use std::time::Duration;

#[allow(clippy::declare_interior_mutable_const)]
const ZU: AtomicU32 = AtomicU32::new(0);
#[allow(clippy::declare_interior_mutable_const)]
const ZB: AtomicBool = AtomicBool::new(false);
static RUNS: [AtomicU32; 8] = [ZU; 8];
static DONE: [AtomicBool; 8] = [ZB; 8];
static CHILD_STARTED: [AtomicBool; 4] = [ZB; 4];

#[derive(Clone, Copy, Debug, PartialEq)]
pub enum Act {
    Yield(usize),
    Sleep,
    Park,
    Panic,
    /// spawn a child with go!, join it
    Nested,
    /// spawn a child in a scope
    Scoped,
    /// spawn a child in a scope that sleeps 2 ms before it finishes: the owner waits in the join at the end of the scope
    ScopedSlow,
}

#[derive(Clone, Copy, Debug, PartialEq)]
pub enum Site {
    Go,
    /// Builder with a custom (unpooled) stack size and a worker id
    Builder,
    /// Builder::spawn_local from the main thread
    Local,
}

#[derive(Clone, Copy, Debug, PartialEq)]
pub enum MainAct {
    /// unpark coroutine i
    Unpark(usize),
    /// cancel coroutine i
    Cancel(usize),
    /// wait until the scoped child of coroutine i has started (no quiescence: the clock must not advance)
    WaitChild(usize),
}

#[derive(Clone, Copy, Debug, PartialEq)]
pub enum Wait {
    Join,
    WaitThenJoin,
    PollThenJoin,
}

fn body(i: usize, acts: &'static [Act]) -> impl FnOnce() -> u32 + Send + 'static {
    move || {
        RUNS[i].fetch_add(1, Ordering::SeqCst);
        for a in acts {
            match a {
                Act::Yield(n) => {
                    for _ in 0..*n {
                        coroutine::yield_now();
                    }
                }
                Act::Sleep => coroutine::sleep(Duration::from_millis(1)),
                Act::Park => coroutine::park(),
                Act::Panic => {
                    DONE[i].store(true, Ordering::SeqCst);
                    std::panic::panic_any(4200u32 + i as u32);
                }
                Act::Nested => {
                    let h = go!(move || {
                        RUNS[i + 4].fetch_add(1, Ordering::SeqCst);
                        coroutine::yield_now();
                        DONE[i + 4].store(true, Ordering::SeqCst);
                        7u32
                    });
                    let r = h.join();
                    assert!(DONE[i + 4].load(Ordering::SeqCst), "nested join returned before the closure finished");
                    assert_eq!(r.ok(), Some(7));
                }
                Act::ScopedSlow => {
                    let mut local = 0u32;
                    coroutine::scope(|s| {
                        go!(s, || {
                            RUNS[i + 4].fetch_add(1, Ordering::SeqCst);
                            CHILD_STARTED[i].store(true, Ordering::SeqCst);
                            coroutine::sleep(Duration::from_millis(2));
                            local = 9;
                            DONE[i + 4].store(true, Ordering::SeqCst);
                        });
                    });
                    assert_eq!(local, 9);
                }
                Act::Scoped => {
                    let mut local = 0u32;
                    coroutine::scope(|s| {
                        go!(s, || {
                            RUNS[i + 4].fetch_add(1, Ordering::SeqCst);
                            coroutine::yield_now();
                            local = 9;
                            DONE[i + 4].store(true, Ordering::SeqCst);
                        });
                    });
                    assert_eq!(local, 9);
                }
            }
        }
        DONE[i].store(true, Ordering::SeqCst);
        100 + i as u32
    }
}

pub struct Prog {
    pub name: &'static str,
    pub workers: usize,
    pub cos: &'static [(Site, &'static [Act])],
    pub main: &'static [MainAct],
    pub wait: Wait,
}

fn run(e: &'static Engine, p: &'static Prog, poll_ns: u64) {
    run_off(e, p, poll_ns, 0)
}

/// `off`: trivial coroutines run before the window so that the run queues sit at a block boundary
fn run_off(e: &'static Engine, p: &'static Prog, poll_ns: u64, off: usize) {
    rt_init_opts(p.workers, 2, 0x4000, poll_ns);
    for _ in 0..off {
        let h = go!(|| 1);
        h.join().unwrap();
    }
    e.begin();
    let mut hs = vec![];
    for (i, (site, acts)) in p.cos.iter().enumerate() {
        let h = match site {
            Site::Go => go!(body(i, acts)),
            Site::Builder => unsafe { coroutine::Builder::new().stack_size(0x3000).id(i + 1).spawn(body(i, acts)) }.unwrap(),
            Site::Local => unsafe { coroutine::Builder::new().spawn_local(body(i, acts)) }.unwrap(),
        };
        hs.push(h);
    }
    let mut cancelled = [false; 4];
    for a in p.main {
        match a {
            MainAct::Unpark(i) => hs[*i].coroutine().unpark(),
            MainAct::Cancel(i) => {
                cancelled[*i] = true;
                unsafe { hs[*i].coroutine().cancel() }
            }
            MainAct::WaitChild(i) => e.wait_flag(&CHILD_STARTED[*i]),
        }
    }
    let mut out = String::new();
    for (i, h) in hs.into_iter().enumerate() {
        let acts = p.cos[i].1;
        match p.wait {
            Wait::Join => {}
            Wait::WaitThenJoin => {
                h.wait();
                if !h.is_done() {
                    e.fail("wait_early", "wait() returned but is_done() is false");
                }
            }
            Wait::PollThenJoin => {
                if h.is_done() && !DONE[i].load(Ordering::SeqCst) && !cancelled[i] {
                    e.fail("is_done_early", &format!("is_done() of coroutine {} is true before its closure finished", i));
                }
            }
        }
        let r = h.join();
        let done = DONE[i].load(Ordering::SeqCst);
        let runs = RUNS[i].load(Ordering::SeqCst);
        if runs != 1 {
            e.fail("runs_exactly_once", &format!("closure of coroutine {} ran {} times when join returned", i, runs));
        }
        let panics = acts.contains(&Act::Panic);
        match r {
            Ok(v) => {
                if !done {
                    e.fail("join_early", &format!("join() of coroutine {} returned Ok({}) before its closure finished", i, v));
                }
                if panics || v != 100 + i as u32 {
                    e.fail("join_value", &format!("join() of coroutine {} returned Ok({})", i, v));
                }
                out.push_str(&format!("{}:ok ", i));
            }
            Err(pl) => {
                if let Some(v) = pl.downcast_ref::<u32>() {
                    if !panics || *v != 4200 + i as u32 {
                        e.fail("join_value", &format!("join() of coroutine {} returned a foreign panic payload {}", i, v));
                    }
                    out.push_str(&format!("{}:panic ", i));
                } else if pl.downcast_ref::<generator::Error>().is_some() {
                    if !cancelled[i] {
                        e.fail("cancel_unasked", &format!("coroutine {} reports Cancel but was never cancelled", i));
                    }
                    if done {
                        e.fail("join_value", &format!("coroutine {} finished its closure but join() reports Cancel", i));
                    }
                    out.push_str(&format!("{}:cancel ", i));
                } else {
                    e.fail("join_value", &format!("join() of coroutine {} returned an unknown payload", i));
                }
            }
        }
    }
    // the join of a coroutine that opened a scope returned: its scoped child, if it ever started, has finished
    for (i, (_, acts)) in p.cos.iter().enumerate() {
        if (acts.contains(&Act::Scoped) || acts.contains(&Act::ScopedSlow)) && RUNS[i + 4].load(Ordering::SeqCst) == 1 && !DONE[i + 4].load(Ordering::SeqCst) {
            e.fail("join_early", &format!("join() of coroutine {} returned while the closure of its scoped child was still running", i));
        }
    }
    // children spawned inside ran exactly once as well
    for (i, (_, acts)) in p.cos.iter().enumerate() {
        if (acts.contains(&Act::Nested) || acts.contains(&Act::Scoped)) && !cancelled[i] {
            let runs = RUNS[i + 4].load(Ordering::SeqCst);
            if runs != 1 {
                e.fail("runs_exactly_once", &format!("child of coroutine {} ran {} times", i, runs));
            }
        }
    }
    e.note(&out);
}

/// second generation: a first coroutine ends abnormally (cancelled while parked / panics / its timed park times out) and
/// is joined; its pooled stack (pool capacity 1) goes to a second coroutine whose closure blocks on a contended Mutex and
/// then on a Semphore - calls that turn a Canceled / Timeout result of their park into a panic or an error. The second
/// coroutine was never cancelled: it must run to its end and join() must return its value.
fn second_generation(e: &'static Engine, workers: usize, first: u8) {
    use may::sync::{Mutex, Semphore};
    rt_init_opts(workers, 1, 0x4000, 3_600_000_000_000);
    let m = Arc::new(Mutex::new(0u32));
    let sem = Arc::new(Semphore::new(0));
    e.begin();
    let f = go!(move || match first {
        0 => loop {
            coroutine::park();
        },
        1 => std::panic::panic_any(4200u32),
        _ => coroutine::park_timeout(Duration::from_millis(1)),
    });
    if first == 0 {
        e.quiesce();
        unsafe { f.coroutine().cancel() };
    }
    let _ = f.join();
    e.quiesce();
    let g = m.lock().unwrap();
    let (m2, s2) = (m.clone(), sem.clone());
    let h = go!(move || {
        RUNS[0].fetch_add(1, Ordering::SeqCst);
        {
            let mut g = m2.lock().unwrap();
            *g += 1;
        }
        s2.wait();
        DONE[0].store(true, Ordering::SeqCst);
        200u32
    });
    // the second coroutine is parked in lock()
    e.quiesce();
    drop(g);
    // ... and now in wait()
    e.quiesce();
    sem.post();
    match h.join() {
        Ok(200) if DONE[0].load(Ordering::SeqCst) => {}
        Ok(v) => e.fail("join_value", &format!("join() returned Ok({})", v)),
        Err(pl) => {
            if pl.downcast_ref::<generator::Error>().is_some() {
                e.fail("cancel_unasked", "the second coroutine reports Cancel but was never cancelled");
            }
            e.fail("join_value", &format!("the second coroutine did not run to its end: {:?}", e.panics().last()));
        }
    }
    if RUNS[0].load(Ordering::SeqCst) != 1 {
        e.fail("runs_exactly_once", "the closure of the second coroutine did not run exactly once");
    }
    e.note("ok");
}

/// two spawners hand coroutines to the same worker's global queue; the first one is held (breakpoint) between claiming its
/// slot and writing it while the second one completes its hand-off and the worker drains the queue; then the first one is
/// let go. Both coroutines run exactly once and both joins return.
fn two_spawners_gap(e: &'static Engine, extra_before: usize) {
    rt_init_opts(1, 2, 0x4000, 3_600_000_000_000);
    for _ in 0..extra_before {
        go!(|| 1).join().unwrap();
    }
    e.begin();
    let slot: Arc<std::sync::Mutex<Option<coroutine::JoinHandle<u32>>>> = Arc::new(std::sync::Mutex::new(None));
    let bp = e.break_at("mpsc.push.claimed");
    let s2 = slot.clone();
    let p1 = e.spawn("spawner", move || {
        let h = go!(|| {
            RUNS[0].fetch_add(1, Ordering::SeqCst);
            coroutine::yield_now();
            DONE[0].store(true, Ordering::SeqCst);
            100u32
        });
        *s2.lock().unwrap_or_else(|e| e.into_inner()) = Some(h);
    });
    e.wait_hit(bp);
    let hb = go!(|| {
        RUNS[1].fetch_add(1, Ordering::SeqCst);
        coroutine::yield_now();
        DONE[1].store(true, Ordering::SeqCst);
        101u32
    });
    // the worker has seen the second hand-off and has done with it whatever it could
    e.quiesce();
    e.release(bp);
    e.join(p1);
    let ha = slot.lock().unwrap_or_else(|e| e.into_inner()).take().unwrap();
    for (i, h) in [ha, hb].into_iter().enumerate() {
        match h.join() {
            Ok(v) if v == 100 + i as u32 && DONE[i].load(Ordering::SeqCst) => {}
            Ok(v) => e.fail("join_value", &format!("join() of coroutine {} returned Ok({})", i, v)),
            Err(_) => e.fail("join_value", &format!("coroutine {} did not return its value", i)),
        }
    }
    e.quiesce();
    for i in 0..2 {
        let r = RUNS[i].load(Ordering::SeqCst);
        if r != 1 {
            e.fail("runs_exactly_once", &format!("closure of coroutine {} ran {} times", i, r));
        }
    }
    e.note("ok");
}

use Act::*;
use MainAct::*;
use Site::*;

static PROGS: &[Prog] = &[
    Prog { name: "one.ret.w1", workers: 1, cos: &[(Go, &[])], main: &[], wait: Wait::Join },
    Prog { name: "one.ret.w2.poll", workers: 2, cos: &[(Go, &[])], main: &[], wait: Wait::PollThenJoin },
    Prog { name: "one.yield2.w1.wait", workers: 1, cos: &[(Go, &[Yield(2)])], main: &[], wait: Wait::WaitThenJoin },
    Prog { name: "two.yield.w2", workers: 2, cos: &[(Go, &[Yield(1)]), (Go, &[Yield(1)])], main: &[], wait: Wait::Join },
    Prog { name: "two.yield2_ret.w2.poll", workers: 2, cos: &[(Go, &[Yield(2)]), (Go, &[])], main: &[], wait: Wait::PollThenJoin },
    Prog { name: "three.yield.w2", workers: 2, cos: &[(Go, &[Yield(1)]), (Go, &[Yield(1)]), (Go, &[])], main: &[], wait: Wait::Join },
    Prog { name: "one.sleep.w1", workers: 1, cos: &[(Go, &[Sleep])], main: &[], wait: Wait::Join },
    Prog { name: "two.sleep_yield.w2", workers: 2, cos: &[(Go, &[Sleep]), (Go, &[Yield(1)])], main: &[], wait: Wait::WaitThenJoin },
    Prog { name: "one.park.w1", workers: 1, cos: &[(Go, &[Park])], main: &[Unpark(0)], wait: Wait::Join },
    Prog { name: "two.park_yield.w2", workers: 2, cos: &[(Go, &[Park]), (Go, &[Yield(1)])], main: &[Unpark(0)], wait: Wait::Join },
    Prog { name: "one.panic.w1", workers: 1, cos: &[(Go, &[Panic])], main: &[], wait: Wait::Join },
    Prog { name: "two.yieldpanic_yield.w2.wait", workers: 2, cos: &[(Go, &[Yield(1), Panic]), (Go, &[Yield(1)])], main: &[], wait: Wait::WaitThenJoin },
    Prog { name: "one.cancel_yield.w1", workers: 1, cos: &[(Go, &[Yield(2)])], main: &[Cancel(0)], wait: Wait::Join },
    Prog { name: "two.cancel_park_yield.w2", workers: 2, cos: &[(Go, &[Park]), (Go, &[Yield(1)])], main: &[Cancel(0)], wait: Wait::Join },
    Prog { name: "one.cancel_sleep.w1", workers: 1, cos: &[(Go, &[Sleep, Yield(1)])], main: &[Cancel(0)], wait: Wait::PollThenJoin },
    Prog { name: "one.nested.w1", workers: 1, cos: &[(Go, &[Nested])], main: &[], wait: Wait::Join },
    Prog { name: "one.nested.w2", workers: 2, cos: &[(Go, &[Nested])], main: &[], wait: Wait::Join },
    Prog { name: "one.scoped.w2", workers: 2, cos: &[(Go, &[Scoped])], main: &[], wait: Wait::Join },
    // the owner of a scope is cancelled while it waits for its child at the end of the scope (cancellation is disabled
    // there): the scope, and with it the owner's closure and its join, must not end before the child's closure has
    Prog { name: "one.scoped_slow.cancel_in_join.w1", workers: 1, cos: &[(Go, &[ScopedSlow])], main: &[WaitChild(0), Cancel(0)], wait: Wait::Join },
    Prog { name: "one.scoped_slow.cancel_in_join.w2", workers: 2, cos: &[(Go, &[ScopedSlow])], main: &[WaitChild(0), Cancel(0)], wait: Wait::WaitThenJoin },
    Prog { name: "builder.yield.w2", workers: 2, cos: &[(Builder, &[Yield(1)]), (Go, &[Yield(1)])], main: &[], wait: Wait::Join },
    Prog { name: "builder.panic.w1", workers: 1, cos: &[(Builder, &[Yield(1), Panic])], main: &[], wait: Wait::Join },
    Prog { name: "local.yield.w1", workers: 1, cos: &[(Local, &[Yield(1)])], main: &[], wait: Wait::Join },
    Prog { name: "local.yield_go.w2", workers: 2, cos: &[(Local, &[Yield(1)]), (Go, &[Yield(1)])], main: &[], wait: Wait::PollThenJoin },
    Prog { name: "local.park.w1", workers: 1, cos: &[(Local, &[Park])], main: &[Unpark(0)], wait: Wait::Join },
    Prog { name: "two.sleep_sleep.w1", workers: 1, cos: &[(Go, &[Sleep]), (Go, &[Sleep])], main: &[], wait: Wait::Join },
];

pub fn build(quick: bool) -> Vec<Scenario> {
    let mut v = vec![];
    for p in PROGS.iter() {
        let three = p.cos.len() >= 3;
        let d = if quick { 2 } else if three { 2 } else { 3 };
        let s = Scenario::new("C01", "spawn_join", p.name, Arc::new(move |e| run(e, p, 3_600_000_000_000))).bound(d);
        v.push(if quick { s.deepen(4, 2500) } else if d == 3 { s.shards(4).deepen(4, 40_000) } else { s.deepen(3, 150_000) });
    }
    for extra in [0usize, 61] {
        v.push(Scenario::new("C01", "two_spawners_gap", format!("two_spawners.first_held_between_claim_and_write.off{}", extra), Arc::new(move |e| two_spawners_gap(e, extra))).tier(quick));
    }
    for w in [1usize, 2] {
        for (first, name) in [(0u8, "cancelled"), (1, "panicked"), (2, "timed_out")] {
            let s = Scenario::new("C01", "second_generation", format!("second_generation.after_{}.w{}", name, w), Arc::new(move |e| second_generation(e, w, first))).tier(quick);
            v.push(if first == 2 { s.t2() } else { s });
        }
    }
    // run queues positioned at their block boundaries (global mpsc: 64 slots, local spmc: 32 slots; the warm-up
    // coroutine of rt_init is the first entry)
    for p in PROGS.iter().filter(|p| ["two.yield.w2", "three.yield.w2", "two.yield2_ret.w2.poll"].contains(&p.name)) {
        for off in if quick { vec![30usize, 62] } else { vec![30usize, 62, 125] } {
            let s = Scenario::new("C01", "spawn_join_boundary", format!("{}.off{}", p.name, off), Arc::new(move |e| run_off(e, p, 3_600_000_000_000, off))).bound(if quick { 1 } else { 2 });
            v.push(if quick { s.deepen(2, 4000) } else { s.deepen(3, 60_000) });
        }
    }
    for (name, off) in [("two.yield.w2", 62usize), ("three.yield.w2", 61)] {
        // one worker: every spawn goes through the same global queue
        if let Some(p) = PROGS.iter().find(|p| p.name == name) {
            static ONE: std::sync::OnceLock<Vec<Prog>> = std::sync::OnceLock::new();
            let progs = ONE.get_or_init(|| {
                PROGS.iter().filter(|p| ["two.yield.w2", "three.yield.w2"].contains(&p.name)).map(|p| Prog { name: p.name, workers: 1, cos: p.cos, main: p.main, wait: p.wait }).collect()
            });
            let p1: &'static Prog = progs.iter().find(|q| q.name == p.name).unwrap();
            let s = Scenario::new("C01", "spawn_join_boundary", format!("{}.one_worker.off{}", name.replace(".w2", ""), off), Arc::new(move |e| run_off(e, p1, 3_600_000_000_000, off))).bound(if quick { 1 } else { 2 });
            v.push(if quick { s.deepen(3, 4000) } else { s.deepen(4, 60_000) });
        }
    }
    // the default 10 ms polling must not break anything (a lost wake-up is masked there by design)
    for p in PROGS.iter().filter(|p| ["two.yield.w2", "one.park.w1", "one.sleep.w1"].contains(&p.name)) {
        v.push(Scenario::new("C01", "spawn_join_poll10ms", format!("{}.poll10ms", p.name), Arc::new(move |e| run(e, p, 10_000_000))).bound(if quick { 1 } else { 2 }).vt_horizon(100_000_000));
    }
    if !quick {
        for p in PROGS.iter().filter(|p| p.workers == 2 && p.cos.len() <= 2) {
            v.push(Scenario::new("C01", "spawn_join", format!("{}.desc", p.name), Arc::new(move |e| run(e, p, 3_600_000_000_000))).bound(2).desc());
        }
        for p in PROGS.iter().filter(|p| ["one.ret.w1", "one.yield2.w1.wait", "one.park.w1"].contains(&p.name)) {
            v.push(Scenario::new("C01", "spawn_join_fine", format!("{}.fine", p.name), Arc::new(move |e| run(e, p, 3_600_000_000_000))).fine().bound(2));
        }
    }
    v
}
