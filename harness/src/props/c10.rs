//! C10 - semaphore permits are conserved; SyncFlag is a one-way latch
use crate::engine::Engine;
use crate::explore::Scenario;
use crate::util::*;
use may::sync::{Semphore, SyncFlag};
use std::sync::atomic::{AtomicBool, AtomicI64, Ordering};
use std::sync::Arc;
use std::time::Duration;

static POSTS_STARTED: AtomicI64 = AtomicI64::new(0);
static SUCC: AtomicI64 = AtomicI64::new(0);
static FIRED: AtomicBool = AtomicBool::new(false);
const MS: u64 = 1_000_000;

fn success(e: &'static Engine, init: i64) {
    let s = SUCC.fetch_add(1, Ordering::SeqCst) + 1;
    let p = POSTS_STARTED.load(Ordering::SeqCst);
    if s > init + p {
        e.fail("permit_duplicated", &format!("{} successful waits with initial value {} and only {} posts started", s, init, p));
    }
}

/// W wait, T wait_timeout(1ms), Y try_wait, P post
fn sem_ops(e: &'static Engine, sem: &Semphore, init: i64, ops: &str) {
    for o in ops.chars() {
        match o {
            'W' => {
                sem.wait();
                success(e, init);
            }
            'T' => {
                let t0 = e.now();
                if sem.wait_timeout(Duration::from_millis(1)) {
                    success(e, init);
                } else if e.now() - t0 < MS {
                    e.fail("timeout_early", &format!("wait_timeout(1ms) returned false after {} ns", e.now() - t0));
                }
            }
            'Y' => {
                if sem.try_wait() {
                    success(e, init);
                }
            }
            'P' => {
                POSTS_STARTED.fetch_add(1, Ordering::SeqCst);
                sem.post();
            }
            _ => unreachable!(),
        }
    }
}

fn sem_run(e: &'static Engine, workers: usize, init: usize, parts: &'static [(char, &'static str)], main_ops: &'static str, cancel: Option<usize>) {
    if needs_rt(parts) {
        rt_init(workers);
    }
    let sem = Arc::new(Semphore::new(init));
    e.begin();
    let mut hs = vec![];
    for (k, o) in parts.iter() {
        let sem = sem.clone();
        hs.push(spawn_part(e, *k, move || sem_ops(e, &sem, init as i64, o)));
    }
    if let Some(c) = cancel {
        cancel_part(&hs[c]);
    }
    sem_ops(e, &sem, init as i64, main_ops);
    let mut out = String::new();
    for (i, h) in hs.into_iter().enumerate() {
        match join_part(e, h) {
            Ok(()) => out.push_str("ok "),
            Err(true) if cancel == Some(i) => out.push_str("cancel "),
            Err(true) => e.fail("cancel_unasked", "a participant ended with Cancel but was not cancelled"),
            Err(false) => e.fail("unexpected_panic", "a participant panicked"),
        }
    }
    let posts = POSTS_STARTED.load(Ordering::SeqCst);
    let succ = SUCC.load(Ordering::SeqCst);
    let want = init as i64 + posts - succ;
    let v = sem.get_value() as i64;
    if v != want {
        e.fail("permit_conservation", &format!("initial {} + {} posts - {} successful waits = {} but the value is {}", init, posts, succ, want, v));
    }
    // the remaining permits are really there
    for _ in 0..want {
        if !sem.try_wait() {
            e.fail("permit_lost", "get_value() reports permits that try_wait() cannot take");
        }
    }
    if sem.try_wait() {
        e.fail("permit_duplicated", "a permit beyond the conserved count could be taken");
    }
    e.note(&format!("{}succ={} left={}", out, succ, want));
}

/// W wait, T wait_timeout(1ms), F fire, I is_fired probe
fn flag_ops(e: &'static Engine, f: &SyncFlag, ops: &str) {
    for o in ops.chars() {
        match o {
            'W' => {
                f.wait();
                if !f.is_fired() {
                    e.fail("latch", "wait() returned but is_fired() is false");
                }
            }
            'T' => {
                let after_fire = FIRED.load(Ordering::SeqCst);
                let t0 = e.now();
                let r = f.wait_timeout(Duration::from_millis(1));
                if !r && after_fire {
                    e.fail("latch", "wait_timeout() returned false although fire() had returned before the call");
                }
                if !r && e.now() - t0 < MS {
                    e.fail("timeout_early", &format!("wait_timeout(1ms) returned false after {} ns", e.now() - t0));
                }
                if r && !f.is_fired() {
                    e.fail("latch", "wait_timeout() returned true but is_fired() is false");
                }
            }
            'F' => {
                f.fire();
                FIRED.store(true, Ordering::SeqCst);
            }
            'I' => {
                let after_fire = FIRED.load(Ordering::SeqCst);
                if after_fire && !f.is_fired() {
                    e.fail("latch", "is_fired() read false after fire() returned");
                }
            }
            _ => unreachable!(),
        }
    }
}

fn flag_run(e: &'static Engine, workers: usize, parts: &'static [(char, &'static str)], main_ops: &'static str, cancel: Option<usize>) {
    if needs_rt(parts) {
        rt_init(workers);
    }
    let f = Arc::new(SyncFlag::new());
    e.begin();
    let mut hs = vec![];
    for (k, o) in parts.iter() {
        let f = f.clone();
        hs.push(spawn_part(e, *k, move || flag_ops(e, &f, o)));
    }
    if let Some(c) = cancel {
        cancel_part(&hs[c]);
    }
    flag_ops(e, &f, main_ops);
    let mut out = String::new();
    for (i, h) in hs.into_iter().enumerate() {
        match join_part(e, h) {
            Ok(()) => out.push_str("ok "),
            Err(true) if cancel == Some(i) => out.push_str("cancel "),
            Err(true) => e.fail("cancel_unasked", "a participant ended with Cancel but was not cancelled"),
            Err(false) => e.fail("unexpected_panic", "a participant panicked"),
        }
    }
    if FIRED.load(Ordering::SeqCst) && (!f.is_fired() || !f.wait_timeout(Duration::from_millis(1))) {
        e.fail("latch", "the flag reads un-fired after fire()");
    }
    e.note(&out);
}

/// store-buffer member: a waiter gives up (cancelled coroutine / timed-out thread) and registers its release; the post is
/// issued in that instant (label behind SyncBlocker::set_release). The permit must end up somewhere: in the waiter (success)
/// or back in the semaphore.
pub fn post_vs_giveup(e: &'static Engine, workers: usize, cancel: bool) {
    rt_init(workers);
    let sem = Arc::new(Semphore::new(0));
    static GOT: AtomicBool = AtomicBool::new(false);
    e.begin();
    let s1 = sem.clone();
    let poster = e.spawn("poster", move || {
        e.wait_label("syncblocker.set_release");
        s1.post();
    });
    let s2 = sem.clone();
    let w = if cancel {
        let h = go!(move || {
            s2.wait();
            GOT.store(true, Ordering::SeqCst);
        });
        e.quiesce();
        unsafe { h.coroutine().cancel() };
        Part::C(h)
    } else {
        Part::T(e.spawn("waiter", move || {
            if s2.wait_timeout(Duration::from_millis(1)) {
                GOT.store(true, Ordering::SeqCst);
            }
        }))
    };
    let _ = join_part(e, w);
    e.join(poster);
    let got = GOT.load(Ordering::SeqCst);
    let v = sem.get_value();
    if (got as usize) + v != 1 {
        e.fail("permit_conservation", &format!("one post: the waiter {} a permit and the value is {}", if got { "got" } else { "did not get" }, v));
    }
    if !got && !sem.try_wait() {
        e.fail("permit_lost", "the permit of the post is neither with the waiter nor in the semaphore");
    }
    e.note(&format!("got={} store_buffer={}", got, e.tso_used()));
}

fn mk_sem(workers: usize, init: usize, parts: &'static [(char, &'static str)], main_ops: &'static str, cancel: Option<usize>) -> Scenario {
    let name = format!(
        "sem.init{}.{}.main{}{}{}",
        init,
        parts_name(parts),
        main_ops,
        if needs_rt(parts) { format!(".w{}", workers) } else { String::new() },
        cancel.map(|c| format!(".cancel{}", c)).unwrap_or_default()
    );
    let s = Scenario::new("C10", "semphore", name, Arc::new(move |e| sem_run(e, workers, init, parts, main_ops, cancel)));
    let s = if needs_rt(parts) { s } else { s.fine() };
    if parts.iter().any(|p| p.1.contains('T')) || main_ops.contains('T') {
        s.t2()
    } else {
        s
    }
}

fn mk_flag(workers: usize, parts: &'static [(char, &'static str)], main_ops: &'static str, cancel: Option<usize>) -> Scenario {
    let name = format!(
        "flag.{}.main{}{}{}",
        parts_name(parts),
        main_ops,
        if needs_rt(parts) { format!(".w{}", workers) } else { String::new() },
        cancel.map(|c| format!(".cancel{}", c)).unwrap_or_default()
    );
    let s = Scenario::new("C10", "sync_flag", name, Arc::new(move |e| flag_run(e, workers, parts, main_ops, cancel)));
    let s = if needs_rt(parts) { s } else { s.fine() };
    if parts.iter().any(|p| p.1.contains('T')) || main_ops.contains('T') {
        s.t2()
    } else {
        s
    }
}

pub fn build(quick: bool) -> Vec<Scenario> {
    let mut v = vec![];
    // component: threads
    v.push(mk_sem(1, 0, &[('T', "W")], "P", None));
    v.push(mk_sem(1, 0, &[('T', "W"), ('T', "W")], "PP", None));
    v.push(mk_sem(1, 1, &[('T', "W"), ('T', "Y")], "P", None));
    v.push(mk_sem(1, 0, &[('T', "T")], "P", None));
    v.push(mk_sem(1, 0, &[('T', "T"), ('T', "W")], "PP", None));
    v.push(mk_flag(1, &[('T', "W"), ('T', "T")], "FI", None));
    for w in [1usize, 2] {
        v.push(mk_sem(w, 0, &[('C', "W")], "P", None));
        v.push(mk_sem(w, 0, &[('C', "W"), ('C', "W")], "PP", None));
        v.push(mk_sem(w, 0, &[('C', "W"), ('C', "P")], "", None));
        v.push(mk_sem(w, 1, &[('C', "W"), ('T', "W")], "P", None));
        v.push(mk_sem(w, 0, &[('C', "T")], "P", None));
        v.push(mk_sem(w, 0, &[('C', "T"), ('C', "W")], "PP", None));
        v.push(mk_sem(w, 1, &[('C', "Y"), ('C', "T")], "", None));
        // a waiter is cancelled while a post races with it
        v.push(mk_sem(w, 0, &[('C', "W")], "P", Some(0)));
        v.push(mk_sem(w, 0, &[('C', "W"), ('C', "W")], "PP", Some(0)));
        v.push(mk_sem(w, 0, &[('C', "T"), ('T', "W")], "PP", Some(0)));
        v.push(mk_flag(w, &[('C', "W")], "FI", None));
        v.push(mk_flag(w, &[('C', "W"), ('C', "T")], "F", None));
        v.push(mk_flag(w, &[('C', "W"), ('T', "WI")], "FT", None));
        v.push(mk_flag(w, &[('C', "W"), ('C', "W")], "F", Some(0)));
    }
    // store-buffer model on the give-up / wake-up handshake
    v.push(Scenario::new("C10", "semphore_store_buffer", "sem.post_vs_cancel.store_buffer.w1", Arc::new(|e| post_vs_giveup(e, 1, true))).tso(&["src/sync/blocking.rs"]).bound(2));
    v.push(Scenario::new("C10", "semphore_store_buffer", "sem.post_vs_cancel.store_buffer.w2", Arc::new(|e| post_vs_giveup(e, 2, true))).tso(&["src/sync/blocking.rs"]).bound(2));
    v.push(Scenario::new("C10", "semphore_store_buffer", "sem.post_vs_timeout.store_buffer", Arc::new(|e| post_vs_giveup(e, 1, false))).tso(&["src/sync/blocking.rs"]).bound(2));
    if !quick {
        // enough posts for every wait that can succeed (a cancelled waiter may still take a permit on the fast path)
        v.push(mk_sem(2, 0, &[('C', "W"), ('C', "W"), ('C', "T")], "PPP", Some(1)));
        v.push(mk_sem(2, 1, &[('C', "WP"), ('C', "WP")], "WP", None));
        v.push(mk_flag(2, &[('C', "W"), ('C', "W"), ('C', "T")], "F", Some(1)));
    }
    v.into_iter().map(|s| s.tier(quick)).collect()
}
