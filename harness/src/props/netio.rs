//! C17 / C18 - network I/O with the real kernel in the loop (DESIGN §3.7)
use crate::engine::Engine;
use crate::explore::Scenario;
use crate::util::*;
use may::coroutine;
use may::net::{TcpListener, TcpStream, UdpSocket};
use may::io::SplitIo;
use may::os::unix::net::{UnixDatagram, UnixListener, UnixStream};
use std::io::{ErrorKind, Read, Write};
use std::os::unix::io::AsRawFd;
use std::sync::atomic::{AtomicBool, AtomicU32, AtomicU64, Ordering};
use std::sync::{Arc, Mutex};
use std::time::Duration;

const MS: u64 = 1_000_000;

fn payload(n: usize) -> Vec<u8> {
    (0..n).map(|i| (i * 7 + 3) as u8).collect()
}

fn set_small_buffers(fd: i32) {
    unsafe {
        let v: libc::c_int = 1;
        libc::setsockopt(fd, libc::SOL_SOCKET, libc::SO_SNDBUF, &v as *const _ as *const _, 4);
        libc::setsockopt(fd, libc::SOL_SOCKET, libc::SO_RCVBUF, &v as *const _ as *const _, 4);
    }
}

fn write_chunks<W: Write>(w: &mut W, data: &[u8], chunk: usize) -> std::io::Result<()> {
    if chunk == 0 {
        return w.write_all(data);
    }
    for c in data.chunks(chunk) {
        w.write_all(c)?;
    }
    Ok(())
}

/// read until EOF with the given buffer size; records whether a zero read came before the writer closed
fn read_all<R: Read>(r: &mut R, bufsz: usize, closed: &AtomicBool, early_eof: &AtomicBool) -> std::io::Result<Vec<u8>> {
    let mut buf = vec![0u8; bufsz];
    let mut got = vec![];
    loop {
        let n = r.read(&mut buf)?;
        if n == 0 {
            if !closed.load(Ordering::SeqCst) {
                early_eof.store(true, Ordering::SeqCst);
            }
            return Ok(got);
        }
        got.extend_from_slice(&buf[..n]);
    }
}

/// one UnixStream pair; writer / reader are coroutines (C) or plain threads (T, proxy coroutine path)
#[allow(clippy::too_many_arguments)]
fn unix_stream(e: &'static Engine, workers: usize, wk: char, rk: char, len: usize, chunk: usize, bufsz: usize, small_buffers: bool, conns: usize) {
    rt_init(workers);
    static CLOSED: [AtomicBool; 2] = [AtomicBool::new(false), AtomicBool::new(false)];
    static EARLY: AtomicBool = AtomicBool::new(false);
    let results: Arc<Mutex<Vec<Option<Vec<u8>>>>> = Arc::new(Mutex::new(vec![None; conns]));
    let mut pairs = vec![];
    for _ in 0..conns {
        let (a, b) = UnixStream::pair().unwrap();
        if small_buffers {
            set_small_buffers(a.as_raw_fd());
            set_small_buffers(b.as_raw_fd());
        }
        pairs.push((a, b));
    }
    let data = payload(len);
    e.begin();
    let mut hs = vec![];
    for (c, (mut a, mut b)) in pairs.into_iter().enumerate() {
        let d = data.clone();
        hs.push(spawn_part(e, wk, move || {
            if let Err(err) = write_chunks(&mut a, &d, chunk) {
                e.fail("write_error", &format!("write failed: {}", err));
            }
            CLOSED[c].store(true, Ordering::SeqCst);
            drop(a);
        }));
        let results = results.clone();
        hs.push(spawn_part(e, rk, move || match read_all(&mut b, bufsz, &CLOSED[c], &EARLY) {
            Ok(v) => results.lock().unwrap_or_else(|e| e.into_inner())[c] = Some(v),
            Err(err) => e.fail("read_error", &format!("read failed: {}", err)),
        }));
    }
    for h in hs {
        if join_part(e, h).is_err() {
            e.fail("unexpected_panic", &format!("an I/O participant panicked: {:?}", e.panics().last()));
        }
    }
    if EARLY.load(Ordering::SeqCst) {
        e.fail("early_eof", "read returned 0 before the peer closed the stream");
    }
    for (c, r) in results.lock().unwrap_or_else(|e| e.into_inner()).iter().enumerate() {
        match r {
            Some(v) if *v == data => {}
            Some(v) => e.fail("stream_corrupted", &format!("connection {}: sent {} bytes, received {} bytes (first difference at {:?})", c, data.len(), v.len(), v.iter().zip(data.iter()).position(|(x, y)| x != y))),
            None => e.fail("stream_corrupted", "a reader did not deliver a result"),
        }
    }
    e.note(&format!("len={}", len));
}

/// descriptor reuse: the last socket of connection 1 is dropped by a `k1` participant while a second connection is
/// *created*, used and dropped by `k2` participants at the same time. The kernel hands out the lowest free descriptor
/// numbers, so the new sockets get the numbers that connection 1 has just closed: whatever the drop still does with its
/// number (deregistering from epoll) must not hit the new sockets.
/// a loopback TCP address that refuses connections for as long as the returned descriptor is open
fn reserved_dead_port() -> (std::net::SocketAddr, std::os::unix::io::OwnedFd) {
    use std::os::unix::io::FromRawFd;
    unsafe {
        let fd = libc::socket(libc::AF_INET, libc::SOCK_STREAM | libc::SOCK_CLOEXEC, 0);
        assert!(fd >= 0, "socket: {}", std::io::Error::last_os_error());
        let guard = std::os::unix::io::OwnedFd::from_raw_fd(fd);
        let mut sa: libc::sockaddr_in = std::mem::zeroed();
        sa.sin_family = libc::AF_INET as libc::sa_family_t;
        sa.sin_addr.s_addr = u32::from_ne_bytes([127, 0, 0, 1]);
        sa.sin_port = 0;
        let r = libc::bind(fd, &sa as *const _ as *const libc::sockaddr, std::mem::size_of::<libc::sockaddr_in>() as libc::socklen_t);
        assert!(r == 0, "bind: {}", std::io::Error::last_os_error());
        let mut len = std::mem::size_of::<libc::sockaddr_in>() as libc::socklen_t;
        let r = libc::getsockname(fd, &mut sa as *mut _ as *mut libc::sockaddr, &mut len);
        assert!(r == 0, "getsockname: {}", std::io::Error::last_os_error());
        let port = u16::from_be(sa.sin_port);
        (std::net::SocketAddr::from(([127, 0, 0, 1], port)), guard)
    }
}

/// `failed_connect`: instead of dropping a socket of an old connection, the `k1` participant makes a TCP connect to a dead
/// port: the refused connect closes and deregisters its fresh descriptor on its error path
fn unix_fd_reuse(e: &'static Engine, workers: usize, k1: char, k2: char, failed_connect: bool) {
    rt_init(workers);
    static CLOSED: AtomicBool = AtomicBool::new(false);
    static EARLY: AtomicBool = AtomicBool::new(false);
    let result: Arc<Mutex<Option<Vec<u8>>>> = Arc::new(Mutex::new(None));
    let old = if failed_connect {
        None
    } else {
        let (a1, b1) = UnixStream::pair().unwrap();
        // the lower number is free again: the new connection will get it and the number of b1
        drop(a1);
        Some(b1)
    };
    // a port nobody listens on
    // (bound but never listening, and kept open: nobody else on the machine - in particular no execution running in
    // parallel - can get this port while we expect it to refuse connections)
    let (dead, _dead_guard) = reserved_dead_port();
    let d2 = payload(5);
    e.begin();
    let mut hs = vec![];
    hs.push(spawn_part(e, k1, move || match old {
        Some(b1) => drop(b1),
        None => {
            if TcpStream::connect(dead).is_ok() {
                e.fail("connect_error", "a connect to a port without listener succeeded");
            }
        }
    }));
    // the second connection is born inside the window
    let d = d2.clone();
    let r = result.clone();
    hs.push(spawn_part(e, k2, move || {
        let (mut a2, mut b2) = UnixStream::pair().unwrap();
        if failed_connect {
            // the refused connect used the lowest free number: let the reader have it
            std::mem::swap(&mut a2, &mut b2);
        }
        let w = spawn_part(e, k2, move || {
            if let Err(err) = a2.write_all(&d) {
                e.fail("write_error", &format!("write failed: {}", err));
            }
            CLOSED.store(true, Ordering::SeqCst);
            drop(a2);
        });
        match read_all(&mut b2, 4, &CLOSED, &EARLY) {
            Ok(v) => *r.lock().unwrap_or_else(|e| e.into_inner()) = Some(v),
            Err(err) => e.fail("read_error", &format!("read failed: {}", err)),
        }
        drop(b2);
        if join_part(e, w).is_err() {
            e.fail("unexpected_panic", "the second writer panicked");
        }
    }));
    for h in hs {
        if join_part(e, h).is_err() {
            e.fail("unexpected_panic", &format!("an I/O participant panicked: {:?}", e.panics().last()));
        }
    }
    if EARLY.load(Ordering::SeqCst) {
        e.fail("early_eof", "read returned 0 before the peer closed the stream");
    }
    if result.lock().unwrap_or_else(|e| e.into_inner()).as_ref() != Some(&d2) {
        e.fail("stream_corrupted", &format!("received {:?}", result.lock().unwrap_or_else(|e| e.into_inner())));
    }
    e.note("ok");
}

/// two handles on one stream (try_clone = a second descriptor with its own registration): two writers, and a reader that
/// hands over to its clone half way; nothing is lost, each writer's bytes stay in order, EOF comes after both writers closed
fn unix_clone(e: &'static Engine, workers: usize) {
    rt_init(workers);
    static OPEN: AtomicU32 = AtomicU32::new(2);
    static EARLY: AtomicBool = AtomicBool::new(false);
    let (a, mut b) = UnixStream::pair().unwrap();
    let a2 = a.try_clone().unwrap();
    let mut b2 = b.try_clone().unwrap();
    e.begin();
    let mut hs = vec![];
    for (k, mut w) in [(0u8, a), (1u8, a2)] {
        hs.push(go!(move || {
            for i in 0..3u8 {
                if let Err(err) = w.write_all(&[k * 16 + i]) {
                    e.fail("write_error", &format!("write failed: {}", err));
                }
            }
            OPEN.fetch_sub(1, Ordering::SeqCst);
            drop(w);
        }));
    }
    let r = go!(move || {
        let mut got = vec![];
        let mut buf = [0u8; 2];
        // first half through the original handle
        while got.len() < 3 {
            match b.read(&mut buf) {
                Ok(0) => break,
                Ok(n) => got.extend_from_slice(&buf[..n]),
                Err(err) => e.fail("read_error", &format!("read failed: {}", err)),
            }
        }
        drop(b);
        loop {
            match b2.read(&mut buf) {
                Ok(0) => {
                    if OPEN.load(Ordering::SeqCst) != 0 {
                        EARLY.store(true, Ordering::SeqCst);
                    }
                    break;
                }
                Ok(n) => got.extend_from_slice(&buf[..n]),
                Err(err) => e.fail("read_error", &format!("read failed: {}", err)),
            }
        }
        got
    });
    for h in hs {
        if h.join().is_err() {
            e.fail("unexpected_panic", "a writer panicked");
        }
    }
    let got = r.join().unwrap_or_else(|_| e.fail("unexpected_panic", "the reader panicked"));
    if EARLY.load(Ordering::SeqCst) {
        e.fail("early_eof", "read returned 0 while a writer handle was still open");
    }
    for k in 0..2u8 {
        let mine: Vec<u8> = got.iter().cloned().filter(|b| b / 16 == k).collect();
        if mine != vec![k * 16, k * 16 + 1, k * 16 + 2] {
            e.fail("stream_corrupted", &format!("bytes of writer {}: {:?} (all received: {:?})", k, mine, got));
        }
    }
    if got.len() != 6 {
        e.fail("stream_corrupted", &format!("6 bytes sent, received {:?}", got));
    }
    e.note("ok");
}

/// loopback TCP: accept, connect, transfer, EOF
fn tcp_loopback(e: &'static Engine, workers: usize, len: usize, chunk: usize, bufsz: usize, client_thread: bool) {
    rt_init(workers);
    static CLOSED: AtomicBool = AtomicBool::new(false);
    static EARLY: AtomicBool = AtomicBool::new(false);
    let l = TcpListener::bind("127.0.0.1:0").unwrap();
    let addr = l.local_addr().unwrap();
    let data = payload(len);
    let d2 = data.clone();
    e.begin();
    let srv = go!(move || {
        let (mut s, _) = match l.accept() {
            Ok(x) => x,
            Err(err) => e.fail("accept_error", &format!("accept failed: {}", err)),
        };
        match read_all(&mut s, bufsz, &CLOSED, &EARLY) {
            Ok(v) => v,
            Err(err) => e.fail("read_error", &format!("read failed: {}", err)),
        }
    });
    let cli = spawn_part(e, if client_thread { 'T' } else { 'C' }, move || {
        let mut c = match TcpStream::connect(addr) {
            Ok(c) => c,
            Err(err) => e.fail("connect_error", &format!("connect failed: {}", err)),
        };
        if let Err(err) = write_chunks(&mut c, &d2, chunk) {
            e.fail("write_error", &format!("write failed: {}", err));
        }
        CLOSED.store(true, Ordering::SeqCst);
        drop(c);
    });
    if join_part(e, cli).is_err() {
        e.fail("unexpected_panic", "the client panicked");
    }
    let got = srv.join().unwrap_or_else(|_| e.fail("unexpected_panic", "the server panicked"));
    if EARLY.load(Ordering::SeqCst) {
        e.fail("early_eof", "read returned 0 before the peer closed the stream");
    }
    if got != data {
        e.fail("stream_corrupted", &format!("sent {} bytes, received {} bytes", data.len(), got.len()));
    }
    e.note(&format!("len={}", len));
}

/// a socket path that is private to this execution (the directory is removed by the explorer at the end of the run)
fn sock_path(tag: &str) -> String {
    let dir = std::env::var("MAYVERIF_SOCKDIR").unwrap_or_else(|_| "/verif/target-hooks/tmp".to_string());
    let _ = std::fs::create_dir_all(&dir);
    let p = format!("{}/{}{}", dir, tag, std::process::id());
    let _ = std::fs::remove_file(&p);
    p
}

/// UnixListener: one acceptor coroutine takes `conns` connections one after the other (reading each to its end before the
/// next accept, so that a later connection becomes ready while the acceptor is busy elsewhere: the listener's readiness
/// has to be remembered); the clients are coroutines or plain threads
fn unix_listener(e: &'static Engine, workers: usize, ck: char, conns: usize, len: usize, bufsz: usize) {
    rt_init(workers);
    static CLOSED: [AtomicBool; 2] = [AtomicBool::new(false), AtomicBool::new(false)];
    static EARLY: AtomicBool = AtomicBool::new(false);
    let path = sock_path("l");
    let l = UnixListener::bind(&path).unwrap();
    let data = payload(len);
    e.begin();
    let srv = go!(move || {
        let mut got = vec![];
        for _ in 0..conns {
            let (mut s, _) = match l.accept() {
                Ok(x) => x,
                Err(err) => e.fail("accept_error", &format!("accept failed: {}", err)),
            };
            // which client this is is told by the first byte
            let mut first = [0u8; 1];
            let c = match s.read(&mut first) {
                Ok(1) => first[0] as usize,
                Ok(_) => e.fail("early_eof", "read returned 0 before the client wrote its first byte"),
                Err(err) => e.fail("read_error", &format!("read failed: {}", err)),
            };
            match read_all(&mut s, bufsz, &CLOSED[c % 2], &EARLY) {
                Ok(v) => got.push((c, v)),
                Err(err) => e.fail("read_error", &format!("read failed: {}", err)),
            }
        }
        got
    });
    let mut hs = vec![];
    for c in 0..conns {
        let d = data.clone();
        let path = path.clone();
        hs.push(spawn_part(e, ck, move || {
            let mut s = match UnixStream::connect(&path) {
                Ok(s) => s,
                Err(err) => e.fail("connect_error", &format!("connect failed: {}", err)),
            };
            if let Err(err) = s.write_all(&[c as u8]).and_then(|_| s.write_all(&d)) {
                e.fail("write_error", &format!("write failed: {}", err));
            }
            CLOSED[c].store(true, Ordering::SeqCst);
            drop(s);
        }));
    }
    for h in hs {
        if join_part(e, h).is_err() {
            e.fail("unexpected_panic", "a client panicked");
        }
    }
    let mut got = srv.join().unwrap_or_else(|_| e.fail("unexpected_panic", "the acceptor panicked"));
    let _ = std::fs::remove_file(&path);
    if EARLY.load(Ordering::SeqCst) {
        e.fail("early_eof", "read returned 0 before the peer closed the stream");
    }
    got.sort();
    if got.len() != conns || got.iter().enumerate().any(|(i, (c, v))| *c != i || *v != data) {
        e.fail("stream_corrupted", &format!("{} connections sent {} bytes each, the acceptor received {:?}", conns, data.len(), got.iter().map(|(c, v)| (*c, v.len())).collect::<Vec<_>>()));
    }
    e.note(&format!("{:?}", got.iter().map(|(c, _)| *c).collect::<Vec<_>>()));
}

/// split(): both ends of a UnixStream pair are split into a read half and a write half (the write half is a duplicate
/// descriptor registered for write readiness only, the read half is re-registered for read readiness only) and used
/// full duplex by four coroutines; each direction ends with shutdown(Write)
fn unix_split(e: &'static Engine, workers: usize, len: usize, bufsz: usize, small_buffers: bool) {
    rt_init(workers);
    static CLOSED: [AtomicBool; 2] = [AtomicBool::new(false), AtomicBool::new(false)];
    static EARLY: AtomicBool = AtomicBool::new(false);
    let (a, b) = UnixStream::pair().unwrap();
    if small_buffers {
        set_small_buffers(a.as_raw_fd());
        set_small_buffers(b.as_raw_fd());
    }
    let d = [payload(len), payload(len + 1).into_iter().rev().collect::<Vec<u8>>()];
    let results: Arc<Mutex<Vec<Option<Vec<u8>>>>> = Arc::new(Mutex::new(vec![None; 2]));
    e.begin();
    let mut hs = vec![];
    for (k, s) in [a, b].into_iter().enumerate() {
        let (mut r, mut w) = match s.split() {
            Ok(x) => x,
            Err(err) => e.fail("split_error", &format!("split failed: {}", err)),
        };
        let out = d[k].clone();
        hs.push(go!(move || {
            if let Err(err) = w.write_all(&out) {
                e.fail("write_error", &format!("write failed: {}", err));
            }
            CLOSED[k].store(true, Ordering::SeqCst);
            let _ = w.inner().shutdown(std::net::Shutdown::Write);
        }));
        let results = results.clone();
        // end k reads what end 1-k writes
        hs.push(go!(move || match read_all(&mut r, bufsz, &CLOSED[1 - k], &EARLY) {
            Ok(v) => results.lock().unwrap_or_else(|e| e.into_inner())[1 - k] = Some(v),
            Err(err) => e.fail("read_error", &format!("read failed: {}", err)),
        }));
    }
    for h in hs {
        if h.join().is_err() {
            e.fail("unexpected_panic", &format!("an I/O participant panicked: {:?}", e.panics().last()));
        }
    }
    if EARLY.load(Ordering::SeqCst) {
        e.fail("early_eof", "read returned 0 before the peer shut its write side down");
    }
    for (k, r) in results.lock().unwrap_or_else(|e| e.into_inner()).iter().enumerate() {
        match r {
            Some(v) if *v == d[k] => {}
            Some(v) => e.fail("stream_corrupted", &format!("direction {}: sent {} bytes, received {} bytes (first difference at {:?})", k, d[k].len(), v.len(), v.iter().zip(d[k].iter()).position(|(x, y)| x != y))),
            None => e.fail("stream_corrupted", "a reader did not deliver a result"),
        }
    }
    e.note(&format!("len={}", len));
}

/// writes `d` with TcpStream::write_vectored, in slices of the given sizes, until everything is written; returns the number of calls
fn write_vectored_all(e: &'static Engine, c: &mut TcpStream, d2: &[u8], sizes: &[usize]) -> usize {
    let total: usize = sizes.iter().sum();
    let mut off = 0usize;
    let mut calls = 0usize;
    while off < total {
        // the slices that are left, the first one cut at `off`
        let mut slices = vec![];
        let mut start = 0usize;
        for &sz in sizes {
            let (lo, hi) = (start.max(off), start + sz);
            if hi > lo || sz == 0 && start >= off {
                slices.push(std::io::IoSlice::new(&d2[lo.min(hi)..hi]));
            }
            start = hi;
        }
        match c.write_vectored(&slices) {
            Ok(0) => e.fail("write_error", "write_vectored returned 0 with bytes left"),
            Ok(n) if off + n > total => e.fail("stream_corrupted", &format!("write_vectored reports {} bytes written, only {} were left", n, total - off)),
            Ok(n) => off += n,
            Err(err) => e.fail("write_error", &format!("write_vectored failed: {}", err)),
        }
        calls += 1;
    }
    calls
}

/// the blocking branch of write_vectored needs back pressure, and loopback TCP with full buffers is not synchronous
/// (acknowledgements and window updates arrive when the kernel pleases: executions do not replay). A may TcpStream built
/// with from_raw_fd over one end of an AF_UNIX stream pair runs the same code (src/net/tcp.rs write_vectored,
/// socket_write_vectored.rs) over a kernel object that is synchronous.
fn tcpstream_over_unix_vectored(e: &'static Engine, workers: usize, wk: char, sizes: &'static [usize], bufsz: usize) {
    use std::os::unix::io::{FromRawFd, IntoRawFd};
    rt_init(workers);
    static CLOSED: AtomicBool = AtomicBool::new(false);
    static EARLY: AtomicBool = AtomicBool::new(false);
    let (a, b) = std::os::unix::net::UnixStream::pair().unwrap();
    set_small_buffers(a.as_raw_fd());
    set_small_buffers(b.as_raw_fd());
    let mut w = unsafe { TcpStream::from_raw_fd(a.into_raw_fd()) };
    let mut r = unsafe { UnixStream::from_raw_fd(b.into_raw_fd()) };
    let total: usize = sizes.iter().sum();
    let data = payload(total);
    let d2 = data.clone();
    e.begin();
    let rd = go!(move || match read_all(&mut r, bufsz, &CLOSED, &EARLY) {
        Ok(v) => v,
        Err(err) => e.fail("read_error", &format!("read failed: {}", err)),
    });
    let wr = spawn_part(e, wk, move || {
        let calls = write_vectored_all(e, &mut w, &d2, sizes);
        e.note(&format!("calls={}", calls.min(3)));
        CLOSED.store(true, Ordering::SeqCst);
        drop(w);
    });
    if join_part(e, wr).is_err() {
        e.fail("unexpected_panic", "the writer panicked");
    }
    let got = rd.join().unwrap_or_else(|_| e.fail("unexpected_panic", "the reader panicked"));
    if EARLY.load(Ordering::SeqCst) {
        e.fail("early_eof", "read returned 0 before the peer closed the stream");
    }
    if got != data {
        e.fail("stream_corrupted", &format!("sent {} bytes, received {} bytes (first difference at {:?})", data.len(), got.len(), got.iter().zip(data.iter()).position(|(x, y)| x != y)));
    }
}

/// TcpStream::write_vectored with slices of the given sizes, repeated until everything is written (a vectored write may
/// be partial); with small socket buffers and a payload of several buffers the writer blocks in the vectored path
fn tcp_vectored(e: &'static Engine, workers: usize, sizes: &'static [usize], bufsz: usize, small_buffers: bool, client_thread: bool) {
    rt_init(workers);
    static CLOSED: AtomicBool = AtomicBool::new(false);
    static EARLY: AtomicBool = AtomicBool::new(false);
    let l = TcpListener::bind("127.0.0.1:0").unwrap();
    if small_buffers {
        set_small_buffers(l.as_raw_fd());
    }
    let addr = l.local_addr().unwrap();
    let total: usize = sizes.iter().sum();
    let data = payload(total);
    let d2 = data.clone();
    e.begin();
    let srv = go!(move || {
        let (mut s, _) = match l.accept() {
            Ok(x) => x,
            Err(err) => e.fail("accept_error", &format!("accept failed: {}", err)),
        };
        match read_all(&mut s, bufsz, &CLOSED, &EARLY) {
            Ok(v) => v,
            Err(err) => e.fail("read_error", &format!("read failed: {}", err)),
        }
    });
    let cli = spawn_part(e, if client_thread { 'T' } else { 'C' }, move || {
        let mut c = match TcpStream::connect(addr) {
            Ok(c) => c,
            Err(err) => e.fail("connect_error", &format!("connect failed: {}", err)),
        };
        if small_buffers {
            set_small_buffers(c.as_raw_fd());
        }
        let calls = write_vectored_all(e, &mut c, &d2, sizes);
        e.note(&format!("calls={}", calls.min(3)));
        CLOSED.store(true, Ordering::SeqCst);
        drop(c);
    });
    if join_part(e, cli).is_err() {
        e.fail("unexpected_panic", "the client panicked");
    }
    let got = srv.join().unwrap_or_else(|_| e.fail("unexpected_panic", "the server panicked"));
    if EARLY.load(Ordering::SeqCst) {
        e.fail("early_eof", "read returned 0 before the peer closed the stream");
    }
    if got != data {
        e.fail("stream_corrupted", &format!("sent {} bytes, received {} bytes (first difference at {:?})", data.len(), got.len(), got.iter().zip(data.iter()).position(|(x, y)| x != y)));
    }
}


/// datagram boundaries: Unix datagram pair or two UDP sockets on loopback
fn datagrams(e: &'static Engine, workers: usize, udp: bool, sizes: &'static [usize], receiver_thread: bool) {
    rt_init(workers);
    let results: Arc<Mutex<Vec<usize>>> = Arc::new(Mutex::new(vec![]));
    e.begin();
    let r2 = results.clone();
    if udp {
        let rx = UdpSocket::bind("127.0.0.1:0").unwrap();
        let tx = UdpSocket::bind("127.0.0.1:0").unwrap();
        let addr = rx.local_addr().unwrap();
        let n = sizes.len();
        let hr = spawn_part(e, if receiver_thread { 'T' } else { 'C' }, move || {
            let mut buf = [0u8; 256];
            for _ in 0..n {
                match rx.recv_from(&mut buf) {
                    Ok((k, _)) => r2.lock().unwrap_or_else(|e| e.into_inner()).push(k),
                    Err(err) => e.fail("recv_error", &format!("recv_from failed: {}", err)),
                }
            }
        });
        let hs = go!(move || {
            for s in sizes {
                if let Err(err) = tx.send_to(&payload(*s), addr) {
                    e.fail("send_error", &format!("send_to failed: {}", err));
                }
                coroutine::yield_now();
            }
        });
        hs.join().ok();
        join_part(e, hr).ok();
    } else {
        let (tx, rx) = UnixDatagram::pair().unwrap();
        let n = sizes.len();
        let hr = spawn_part(e, if receiver_thread { 'T' } else { 'C' }, move || {
            let mut buf = [0u8; 256];
            for _ in 0..n {
                match rx.recv(&mut buf) {
                    Ok(k) => r2.lock().unwrap_or_else(|e| e.into_inner()).push(k),
                    Err(err) => e.fail("recv_error", &format!("recv failed: {}", err)),
                }
            }
        });
        let hs = go!(move || {
            for s in sizes {
                if let Err(err) = tx.send(&payload(*s)) {
                    e.fail("send_error", &format!("send failed: {}", err));
                }
                coroutine::yield_now();
            }
        });
        hs.join().ok();
        join_part(e, hr).ok();
    }
    let got = results.lock().unwrap_or_else(|e| e.into_inner()).clone();
    if got != sizes {
        e.fail("datagram_boundaries", &format!("sent datagrams of {:?} bytes, received {:?}", sizes, got));
    }
    e.note(&fmt_list(&got));
}

// ------------------------------------------------------------------------------------------------ C18

static ELAPSED: AtomicU64 = AtomicU64::new(0);
static RESULT: AtomicU32 = AtomicU32::new(0);

/// read with timeout `d_ns`, the peer writes at virtual time `at_ns` (0 = never).
/// `ops`: number of reads on the same socket (2 = stale timer case); the peer writes one byte per op
enum RSock {
    Unix(UnixStream),
    Tcp(TcpStream),
}
impl RSock {
    fn read(&mut self, buf: &mut [u8]) -> std::io::Result<usize> {
        match self {
            RSock::Unix(s) => s.read(buf),
            RSock::Tcp(s) => s.read(buf),
        }
    }
}
enum WSock {
    Unix(UnixStream),
    Tcp(std::net::TcpStream),
}
impl WSock {
    fn write_all(&mut self, buf: &[u8]) -> std::io::Result<()> {
        match self {
            WSock::Unix(s) => s.write_all(buf),
            WSock::Tcp(s) => s.write_all(buf),
        }
    }
}

/// `tcp`: the reader is a may TcpStream (its own read path in net/tcp.rs), the peer a plain std socket
fn read_timeout(e: &'static Engine, workers: usize, d_ns: u64, at_ns: &'static [u64], reader_delay_ns: u64, tcp: bool) {
    use std::os::unix::io::{FromRawFd, IntoRawFd};
    rt_init(workers);
    let (mut a, mut b) = if tcp {
        let l = std::net::TcpListener::bind("127.0.0.1:0").unwrap();
        let c = std::net::TcpStream::connect(l.local_addr().unwrap()).unwrap();
        let (srv, _) = l.accept().unwrap();
        srv.set_nodelay(true).unwrap();
        let b = unsafe { TcpStream::from_raw_fd(c.into_raw_fd()) };
        b.set_read_timeout(Some(Duration::from_nanos(d_ns))).unwrap();
        (WSock::Tcp(srv), RSock::Tcp(b))
    } else {
        let (a, b) = UnixStream::pair().unwrap();
        b.set_read_timeout(Some(Duration::from_nanos(d_ns))).unwrap();
        (WSock::Unix(a), RSock::Unix(b))
    };
    let results: Arc<Mutex<Vec<(bool, u64, u64)>>> = Arc::new(Mutex::new(vec![]));
    e.begin();
    let r2 = results.clone();
    let n = at_ns.len();
    let rd = go!(move || {
        if reader_delay_ns != 0 {
            // the first read starts at the very moment the data arrives: the readiness edge races with subscribe
            coroutine::sleep(Duration::from_nanos(reader_delay_ns));
        }
        for i in 0..n {
            if i > 0 && reader_delay_ns != 0 {
                // the next operation starts later, so that a timer left over from the previous one would be early
                coroutine::sleep(Duration::from_nanos(2 * reader_delay_ns));
            }
            let mut buf = [0u8; 4];
            let t0 = may::verif::now();
            let r = b.read(&mut buf);
            let dt = may::verif::now() - t0;
            match r {
                Ok(k) if k > 0 => r2.lock().unwrap_or_else(|e| e.into_inner()).push((true, t0, dt)),
                Ok(_) => e.fail("early_eof", "read returned 0 although the peer is open"),
                Err(err) if err.kind() == ErrorKind::TimedOut => r2.lock().unwrap_or_else(|e| e.into_inner()).push((false, t0, dt)),
                Err(err) => e.fail("read_error", &format!("read failed with {} instead of TimedOut", err)),
            }
        }
        b
    });
    // the writer is a coroutine, or (when the read is timed to meet the data) a plain thread, so that the write is
    // not serialised with the reader's wake-up on the timer thread
    let keep: Arc<Mutex<Option<WSock>>> = Arc::new(Mutex::new(None));
    let k2 = keep.clone();
    let writer = move || {
        let start = may::verif::now();
        for at in at_ns {
            if *at != 0 {
                let now = may::verif::now() - start;
                if *at > now {
                    coroutine::sleep(Duration::from_nanos(*at - now));
                }
                a.write_all(&[1]).unwrap();
            }
        }
        // keep the peer open until the reader is done
        *k2.lock().unwrap_or_else(|e| e.into_inner()) = Some(a);
    };
    let wr = spawn_part(e, if reader_delay_ns != 0 { 'T' } else { 'C' }, writer);
    let _b = rd.join().unwrap_or_else(|_| e.fail("unexpected_panic", "the reader panicked"));
    if join_part(e, wr).is_err() {
        e.fail("unexpected_panic", "the writer panicked");
    }
    let _a = keep.lock().unwrap_or_else(|e| e.into_inner()).take();
    let res = results.lock().unwrap_or_else(|e| e.into_inner()).clone();
    for (i, (got, _t0, dt)) in res.iter().enumerate() {
        if !*got && *dt < d_ns {
            e.fail("timeout_early", &format!("read {} with timeout {} ns failed with TimedOut after only {} ns", i, d_ns, dt));
        }
        if !e.t2_used() && *dt > d_ns + MS {
            e.fail("timeout_late", &format!("read {} with timeout {} ns returned after {} ns", i, d_ns, dt));
        }
    }
    // data that arrives well within the timeout must be delivered
    if !e.t2_used() {
        let mut t = 0u64;
        let mut k = 0usize;
        for (i, (got, t0, _)) in res.iter().enumerate() {
            // the i-th read gets the next unread byte if it arrives before its own deadline
            if k < at_ns.len() && at_ns[k] != 0 {
                let arrival = at_ns[k];
                // relative to the start of the window (the first read starts after `reader_delay_ns`)
                let rel_start = *t0 - res[0].1 + reader_delay_ns;
                if arrival + MS < rel_start + d_ns && !*got {
                    e.fail("data_missed", &format!("read {} started at {} ns with timeout {} ns reported TimedOut although data arrived at {} ns", i, rel_start, d_ns, arrival));
                }
                if *got {
                    k += 1;
                }
            }
            t += 1;
        }
        let _ = t;
    }
    e.note(&fmt_list(&res.iter().map(|(g, _, dt)| (*g as u8, *dt)).collect::<Vec<_>>()));
}

#[derive(Clone, Copy, PartialEq, Debug)]
enum Blocked {
    Read,
    TimedRead,
    Accept,
    UdpRecv,
}

/// a coroutine blocked in socket I/O is cancelled; a bystander connection keeps working
fn cancel_io(e: &'static Engine, workers: usize, what: Blocked) {
    rt_init(workers);
    static FD: AtomicU32 = AtomicU32::new(0);
    let (mut x, mut y) = UnixStream::pair().unwrap();
    e.begin();
    let t = match what {
        Blocked::Read => {
            let (a, mut b) = UnixStream::pair().unwrap();
            FD.store(b.as_raw_fd() as u32, Ordering::SeqCst);
            go!(move || {
                let _keep_peer = a;
                let _t = Tracked::new(1);
                let mut buf = [0u8; 4];
                let _ = b.read(&mut buf);
                coroutine::sleep(Duration::from_millis(1));
            })
        }
        Blocked::TimedRead => {
            // the read has a timeout armed when it is cancelled: the timer entry outlives the socket
            let (a, mut b) = UnixStream::pair().unwrap();
            b.set_read_timeout(Some(Duration::from_millis(2))).unwrap();
            FD.store(b.as_raw_fd() as u32, Ordering::SeqCst);
            go!(move || {
                let _keep_peer = a;
                let _t = Tracked::new(1);
                let mut buf = [0u8; 4];
                let _ = b.read(&mut buf);
                coroutine::sleep(Duration::from_millis(1));
            })
        }
        Blocked::Accept => {
            let l = TcpListener::bind("127.0.0.1:0").unwrap();
            FD.store(l.as_raw_fd() as u32, Ordering::SeqCst);
            go!(move || {
                let _t = Tracked::new(1);
                let _ = l.accept();
                coroutine::sleep(Duration::from_millis(1));
            })
        }
        Blocked::UdpRecv => {
            let s = UdpSocket::bind("127.0.0.1:0").unwrap();
            FD.store(s.as_raw_fd() as u32, Ordering::SeqCst);
            go!(move || {
                let _t = Tracked::new(1);
                let mut buf = [0u8; 4];
                let _ = s.recv_from(&mut buf);
                coroutine::sleep(Duration::from_millis(1));
            })
        }
    };
    // bystander connection
    let by = go!(move || {
        let mut buf = [0u8; 3];
        y.read_exact(&mut buf).map(|_| buf)
    });
    let bw = go!(move || {
        coroutine::yield_now();
        x.write_all(b"abc")
    });
    unsafe { t.coroutine().cancel() };
    match t.join() {
        Ok(()) => e.fail("cancel_ignored", "the coroutine blocked in socket I/O returned normally after cancel()"),
        Err(p) => {
            if p.downcast_ref::<generator::Error>().is_none() {
                e.fail("unexpected_panic", "the cancelled coroutine ended with another panic");
            }
        }
    }
    match by.join() {
        Ok(Ok(b)) if &b == b"abc" => {}
        _ => e.fail("bystander_hurt", "another connection's I/O was disturbed by the cancellation"),
    }
    bw.join().ok();
    if matches!(what, Blocked::TimedRead) {
        // the runtime outlives the deadline of the cancelled read; sockets created meanwhile (their event data may
        // reuse the memory of the closed one) do untimed I/O and must not see anything of it
        let (mut p, mut q) = UnixStream::pair().unwrap();
        let late = go!(move || {
            let mut buf = [0u8; 1];
            q.read(&mut buf).map(|n| (n, buf[0]))
        });
        let lw = go!(move || {
            coroutine::sleep(Duration::from_millis(5));
            p.write_all(b"z")
        });
        match late.join() {
            Ok(Ok((1, b'z'))) => {}
            Ok(Ok(x)) => e.fail("bystander_hurt", &format!("a read on a socket created after the cancellation returned {:?}", x)),
            Ok(Err(err)) => e.fail("bystander_hurt", &format!("an untimed read on a socket created after the cancellation failed with {}", err)),
            Err(_) => e.fail("unexpected_panic", "the late reader panicked"),
        }
        lw.join().ok();
    }
    e.quiesce();
    check_drops(e, 1..=1);
    let fd = FD.load(Ordering::SeqCst) as i32;
    if unsafe { libc::fcntl(fd, libc::F_GETFD) } != -1 {
        e.fail("fd_leaked", &format!("fd {} of the cancelled coroutine's socket is still open", fd));
    }
    e.note("cancelled");
}

pub fn build_c17(quick: bool) -> Vec<Scenario> {
    let mut v = vec![];
    let p = "C17";
    for w in [1usize, 2] {
        for (wk, rk, len, chunk, bufsz) in [('C', 'C', 5, 0, 4), ('C', 'C', 11, 3, 1), ('C', 'C', 0, 0, 4), ('C', 'T', 5, 1, 64), ('T', 'C', 5, 0, 4), ('C', 'C', 1, 0, 64)] {
            v.push(Scenario::new(p, "unix_stream", format!("unix.{}{}.len{}.chunk{}.buf{}.w{}", wk, rk, len, chunk, bufsz, w), Arc::new(move |e| unix_stream(e, w, wk, rk, len, chunk, bufsz, false, 1))));
        }
        // back pressure: several socket buffers
        v.push(Scenario::new(p, "unix_backpressure", format!("unix.backpressure.CC.len12000.w{}", w), Arc::new(move |e| unix_stream(e, w, 'C', 'C', 12_000, 0, 4096, true, 1))));
        if w == 2 {
            // an fd belongs to the selector of worker fd % workers: with one more descriptor open, the writer's and the
            // reader's sockets swap selectors, so that both "own worker" and "other worker" are covered for each side
            v.push(Scenario::new(
                p,
                "unix_backpressure",
                "unix.backpressure.CC.len12000.fdshift1.w2",
                Arc::new(move |e| {
                    let _ = unsafe { libc::dup(0) };
                    unix_stream(e, 2, 'C', 'C', 12_000, 0, 4096, true, 1)
                }),
            ));
            v.push(Scenario::new(p, "unix_backpressure", "unix.backpressure.TC.len12000.w2", Arc::new(move |e| unix_stream(e, 2, 'T', 'C', 12_000, 0, 4096, true, 1))));
            v.push(Scenario::new(
                p,
                "unix_backpressure",
                "unix.backpressure.TC.len12000.fdshift1.w2",
                Arc::new(move |e| {
                    let _ = unsafe { libc::dup(0) };
                    unix_stream(e, 2, 'T', 'C', 12_000, 0, 4096, true, 1)
                }),
            ));
        }
        v.push(Scenario::new(p, "unix_stream", format!("unix.2conn.CC.len5.w{}", w), Arc::new(move |e| unix_stream(e, w, 'C', 'C', 5, 0, 4, false, 2))));
        v.push(Scenario::new(p, "tcp", format!("tcp.CC.len7.buf3.w{}", w), Arc::new(move |e| tcp_loopback(e, w, 7, 0, 3, false))));
        if w == 2 {
            // the listener on the selector of the other worker (one more descriptor open shifts fd % workers): its
            // readiness can be reported while the acceptor is between two steps of accept()
            v.push(
                Scenario::new(
                    p,
                    "tcp",
                    "tcp.CC.len7.buf3.fdshift1.w2",
                    Arc::new(move |e| {
                        let _ = unsafe { libc::dup(0) };
                        tcp_loopback(e, 2, 7, 0, 3, false)
                    }),
                )
                .bound(2),
            );
            v.push(
                Scenario::new(
                    p,
                    "tcp",
                    "tcp.thread_client.len7.chunk2.fdshift1.w2",
                    Arc::new(move |e| {
                        let _ = unsafe { libc::dup(0) };
                        tcp_loopback(e, 2, 7, 2, 64, true)
                    }),
                )
                .bound(2),
            );
        }
        v.push(Scenario::new(p, "unix_clone", format!("unix.try_clone.two_writers.reader_switches_handle.w{}", w), Arc::new(move |e| unix_clone(e, w))));
        // a connection is dropped while another one is created: descriptor numbers are reused at once
        v.push(Scenario::new(p, "unix_fd_reuse", format!("unix.fd_reuse.drop_T.new_CC.w{}", w), Arc::new(move |e| unix_fd_reuse(e, w, 'T', 'C', false))));
        if w == 2 {
            v.push(Scenario::new(p, "unix_fd_reuse", "unix.fd_reuse.drop_C.new_CC.w2", Arc::new(move |e| unix_fd_reuse(e, 2, 'C', 'C', false))));
            v.push(Scenario::new(p, "unix_fd_reuse", "unix.fd_reuse.drop_C.new_TT.w2", Arc::new(move |e| unix_fd_reuse(e, 2, 'C', 'T', false))));
            v.push(Scenario::new(p, "unix_fd_reuse", "unix.fd_reuse.refused_connect_C.new_CC.w2", Arc::new(move |e| unix_fd_reuse(e, 2, 'C', 'C', true))));
            v.push(Scenario::new(p, "unix_fd_reuse", "unix.fd_reuse.refused_connect_T.new_CC.w2", Arc::new(move |e| unix_fd_reuse(e, 2, 'T', 'C', true))));
            // the same with one more descriptor open: the reused number belongs to the other worker's selector
            v.push(Scenario::new(
                p,
                "unix_fd_reuse",
                "unix.fd_reuse.refused_connect_C.new_CC.fdshift1.w2",
                Arc::new(move |e| {
                    let _ = unsafe { libc::dup(0) };
                    unix_fd_reuse(e, 2, 'C', 'C', true)
                }),
            ));
            v.push(Scenario::new(
                p,
                "unix_fd_reuse",
                "unix.fd_reuse.refused_connect_T.new_CC.fdshift1.w2",
                Arc::new(move |e| {
                    let _ = unsafe { libc::dup(0) };
                    unix_fd_reuse(e, 2, 'T', 'C', true)
                }),
            ));
        }
        // UnixListener (bind / accept / connect by path), split halves, vectored writes
        v.push(Scenario::new(p, "unix_listener", format!("unixlistener.C.1conn.len5.w{}", w), Arc::new(move |e| unix_listener(e, w, 'C', 1, 5, 4))));
        v.push(Scenario::new(p, "unix_listener", format!("unixlistener.C.2conn.len3.w{}", w), Arc::new(move |e| unix_listener(e, w, 'C', 2, 3, 64))));
        v.push(Scenario::new(p, "unix_listener", format!("unixlistener.T.2conn.len3.w{}", w), Arc::new(move |e| unix_listener(e, w, 'T', 2, 3, 64))));
        v.push(Scenario::new(p, "unix_split", format!("unix.split.duplex.len5.buf4.w{}", w), Arc::new(move |e| unix_split(e, w, 5, 4, false))));
        v.push(Scenario::new(p, "unix_split", format!("unix.split.duplex.backpressure.len9000.w{}", w), Arc::new(move |e| unix_split(e, w, 9000, 4096, true))));
        v.push(Scenario::new(p, "tcp_vectored", format!("tcp.write_vectored.sizes3_0_4.buf2.w{}", w), Arc::new(move |e| tcp_vectored(e, w, &[3, 0, 4], 2, false, false))));
        v.push(Scenario::new(p, "tcp_vectored", format!("tcpstream_over_unix.write_vectored.backpressure.C.sizes4000_0_3000_5000.w{}", w), Arc::new(move |e| tcpstream_over_unix_vectored(e, w, 'C', &[4000, 0, 3000, 5000], 4096))));
        if w == 2 {
            v.push(Scenario::new(
                p,
                "unix_listener",
                "unixlistener.C.2conn.len3.fdshift1.w2",
                Arc::new(move |e| {
                    let _ = unsafe { libc::dup(0) };
                    unix_listener(e, 2, 'C', 2, 3, 64)
                }),
            ));
            v.push(Scenario::new(
                p,
                "unix_split",
                "unix.split.duplex.backpressure.len9000.fdshift1.w2",
                Arc::new(move |e| {
                    let _ = unsafe { libc::dup(0) };
                    unix_split(e, 2, 9000, 4096, true)
                }),
            ));
            v.push(Scenario::new(p, "tcp_vectored", "tcpstream_over_unix.write_vectored.backpressure.T.sizes4000_0_3000_5000.w2", Arc::new(move |e| tcpstream_over_unix_vectored(e, 2, 'T', &[4000, 0, 3000, 5000], 4096))));
            v.push(Scenario::new(
                p,
                "tcp_vectored",
                "tcpstream_over_unix.write_vectored.backpressure.C.sizes4000_0_3000_5000.fdshift1.w2",
                Arc::new(move |e| {
                    let _ = unsafe { libc::dup(0) };
                    tcpstream_over_unix_vectored(e, 2, 'C', &[4000, 0, 3000, 5000], 4096)
                }),
            ));
            v.push(Scenario::new(p, "tcp_vectored", "tcp.write_vectored.thread_client.sizes3_0_4.buf2.w2", Arc::new(move |e| tcp_vectored(e, 2, &[3, 0, 4], 2, false, true))));
        }
        // plain threads wait in std::thread::park, which may return spuriously
        v.push(Scenario::new(p, "thread_io_spurious_park", format!("unix.CT.len5.chunk1.buf64.spurious_park.w{}", w), Arc::new(move |e| unix_stream(e, w, 'C', 'T', 5, 1, 64, false, 1))).spurious());
        v.push(Scenario::new(p, "tcp", format!("tcp.thread_client.len7.chunk2.w{}", w), Arc::new(move |e| tcp_loopback(e, w, 7, 2, 64, true))));
        v.push(Scenario::new(p, "datagram", format!("unixdgram.sizes0_1_100.w{}", w), Arc::new(move |e| datagrams(e, w, false, &[0, 1, 100], false))));
        v.push(Scenario::new(p, "datagram", format!("udp.sizes1_0_100.w{}", w), Arc::new(move |e| datagrams(e, w, true, &[1, 0, 100], false))));
        v.push(Scenario::new(p, "datagram", format!("udp.thread_receiver.sizes1_100.w{}", w), Arc::new(move |e| datagrams(e, w, true, &[1, 100], true))));
    }
    if !quick {
        v.push(Scenario::new(p, "unix_backpressure", "unix.backpressure.CT.len12000.w2", Arc::new(move |e| unix_stream(e, 2, 'C', 'T', 12_000, 5000, 1024, true, 1))));
        v.push(Scenario::new(p, "tcp", "tcp.CC.len64.chunk7.buf5.w2", Arc::new(move |e| tcp_loopback(e, 2, 64, 7, 5, false))));
    }
    v.into_iter()
        .map(|s| {
            // the spurious wake-up is one deviation, the window it has to hit a second one
            // (the same for the unix listener: connect, the event handled by the other worker's selector, then subscribe)
            let deep = s.name.ends_with("spurious_park.w1") || s.name.contains(".fdshift1.") && s.name.starts_with("tcp.") || s.name.starts_with("unixlistener.") && s.name.ends_with(".w2");
            let s = s.tier(quick);
            if deep && s.bound < 2 {
                s.bound(2)
            } else {
                s
            }
        })
        .map(|s| s.horizon(12_000))
        .collect()
}

/// a loopback TCP listener whose accept queue is full: the kernel drops further SYNs, so a connect to it stays in
/// progress (the retransmission comes after one second of real time, far beyond any execution). The returned
/// descriptors keep the state alive.
fn blackhole_listener() -> (std::net::SocketAddr, Vec<std::os::unix::io::OwnedFd>) {
    use std::os::unix::io::{FromRawFd, IntoRawFd};
    let l = std::net::TcpListener::bind("127.0.0.1:0").unwrap();
    let addr = l.local_addr().unwrap();
    let mut keep = vec![];
    unsafe {
        let lfd = l.into_raw_fd();
        libc::listen(lfd, 0);
        keep.push(std::os::unix::io::OwnedFd::from_raw_fd(lfd));
        let mut sa: libc::sockaddr_in = std::mem::zeroed();
        sa.sin_family = libc::AF_INET as libc::sa_family_t;
        sa.sin_addr.s_addr = u32::from_ne_bytes([127, 0, 0, 1]);
        sa.sin_port = addr.port().to_be();
        for _ in 0..16 {
            let fd = libc::socket(libc::AF_INET, libc::SOCK_STREAM | libc::SOCK_CLOEXEC | libc::SOCK_NONBLOCK, 0);
            assert!(fd >= 0);
            keep.push(std::os::unix::io::OwnedFd::from_raw_fd(fd));
            libc::connect(fd, &sa as *const _ as *const libc::sockaddr, std::mem::size_of::<libc::sockaddr_in>() as libc::socklen_t);
            let mut pfd = libc::pollfd { fd, events: libc::POLLOUT, revents: 0 };
            if libc::poll(&mut pfd, 1, 2) == 0 {
                // this one is not answered any more: the queue is full
                return (addr, keep);
            }
        }
    }
    panic!("environment: the accept queue of a listen(0) socket never filled up");
}

/// TcpStream::connect_timeout. `blackhole`: nobody answers - the call must fail with TimedOut, no earlier than `d` and not
/// (much) later. Otherwise the connect succeeds at once, with its timer armed or not: the first read on the new stream
/// has no timeout and its data arrives long after the connect's deadline - it must not be hit by that timer.
fn connect_timeout(e: &'static Engine, workers: usize, d_ns: u64, blackhole: bool, kind: char) {
    rt_init(workers);
    let d = Duration::from_nanos(d_ns);
    if blackhole {
        let (addr, _keep) = blackhole_listener();
        e.begin();
        let res: Arc<Mutex<Option<(Option<ErrorKind>, u64)>>> = Arc::new(Mutex::new(None));
        let r2 = res.clone();
        let h = spawn_part(e, kind, move || {
            let t0 = may::verif::now();
            let r = TcpStream::connect_timeout(&addr, d);
            let dt = may::verif::now() - t0;
            *r2.lock().unwrap_or_else(|e| e.into_inner()) = Some((r.err().map(|x| x.kind()), dt));
        });
        if join_part(e, h).is_err() {
            e.fail("unexpected_panic", "the connecting participant panicked");
        }
        let r = res.lock().unwrap_or_else(|e| e.into_inner()).take();
        match r {
            Some((Some(ErrorKind::TimedOut), dt)) => {
                if dt < d_ns {
                    e.fail("timeout_early", &format!("connect_timeout({} ns) failed with TimedOut after only {} ns", d_ns, dt));
                }
                if !e.t2_used() && dt > d_ns + MS {
                    e.fail("timeout_late", &format!("connect_timeout({} ns) returned after {} ns", d_ns, dt));
                }
                e.note("timed_out");
            }
            Some((None, _)) => e.fail("environment", "the connect to a listener with a full accept queue succeeded"),
            Some((Some(k), _)) => e.fail("connect_error", &format!("connect_timeout failed with {:?} instead of TimedOut", k)),
            None => e.fail("unexpected_panic", "no result"),
        }
        return;
    }
    let l = TcpListener::bind("127.0.0.1:0").unwrap();
    let addr = l.local_addr().unwrap();
    e.begin();
    let srv = go!(move || {
        let (mut s, _) = match l.accept() {
            Ok(x) => x,
            Err(err) => e.fail("accept_error", &format!("accept failed: {}", err)),
        };
        coroutine::sleep(Duration::from_nanos(3 * d_ns));
        if let Err(err) = s.write_all(b"z") {
            e.fail("write_error", &format!("write failed: {}", err));
        }
        // keep the stream open until the client has read
        s
    });
    let h = spawn_part(e, kind, move || {
        let mut c = match TcpStream::connect_timeout(&addr, d) {
            Ok(c) => c,
            Err(err) => e.fail("connect_error", &format!("connect_timeout to a live listener failed: {}", err)),
        };
        let mut buf = [0u8; 2];
        match c.read(&mut buf) {
            Ok(1) if buf[0] == b'z' => {}
            Ok(n) => e.fail("stream_corrupted", &format!("read returned {} bytes {:?}", n, &buf[..n])),
            Err(err) => e.fail("later_operation_hit", &format!("the first read (no timeout set) on a stream from connect_timeout({} ns) failed with {}: the connect's timer outlived the connect", d_ns, err)),
        }
    });
    if join_part(e, h).is_err() {
        e.fail("unexpected_panic", "the connecting participant panicked");
    }
    let _s = srv.join().unwrap_or_else(|_| e.fail("unexpected_panic", "the server panicked"));
    e.note("connected");
}

/// UDP: a recv_from whose datagram arrives in the instant of its deadline, then a recv on the same (connected) socket whose
/// datagram arrives well within its own timeout: the second call must not report a timeout left over from the first
fn udp_timeout_then_recv(e: &'static Engine, workers: usize, d_ns: u64) {
    rt_init(workers);
    let a = UdpSocket::bind("127.0.0.1:0").unwrap();
    let addr = a.local_addr().unwrap();
    let peer = std::net::UdpSocket::bind("127.0.0.1:0").unwrap();
    let peer_addr = peer.local_addr().unwrap();
    a.set_read_timeout(Some(Duration::from_nanos(d_ns))).unwrap();
    static FIRST_DONE: AtomicBool = AtomicBool::new(false);
    let results: Arc<Mutex<Vec<(bool, u64)>>> = Arc::new(Mutex::new(vec![]));
    e.begin();
    let r2 = results.clone();
    let rd = go!(move || {
        let mut buf = [0u8; 8];
        let t0 = may::verif::now();
        let r = a.recv_from(&mut buf);
        let dt = may::verif::now() - t0;
        match r {
            Ok(_) => r2.lock().unwrap_or_else(|e| e.into_inner()).push((true, dt)),
            Err(err) if err.kind() == ErrorKind::TimedOut => r2.lock().unwrap_or_else(|e| e.into_inner()).push((false, dt)),
            Err(err) => e.fail("read_error", &format!("recv_from failed with {}", err)),
        }
        a.connect(peer_addr).unwrap();
        FIRST_DONE.store(true, Ordering::SeqCst);
        let t0 = may::verif::now();
        let r = a.recv(&mut buf);
        let dt = may::verif::now() - t0;
        match r {
            Ok(_) => r2.lock().unwrap_or_else(|e| e.into_inner()).push((true, dt)),
            Err(err) if err.kind() == ErrorKind::TimedOut => r2.lock().unwrap_or_else(|e| e.into_inner()).push((false, dt)),
            Err(err) => e.fail("read_error", &format!("recv failed with {}", err)),
        }
        a
    });
    let wr = e.spawn("peer", move || {
        // the first datagram meets the deadline of the recv_from
        e.vsleep(d_ns);
        peer.send_to(&[1], addr).unwrap();
        e.wait_flag(&FIRST_DONE);
        // the second one comes a quarter of the timeout into the recv
        e.vsleep(d_ns / 4);
        peer.send_to(&[2], addr).unwrap();
    });
    let _a = rd.join().unwrap_or_else(|_| e.fail("unexpected_panic", "the receiver panicked"));
    e.join(wr);
    let res = results.lock().unwrap_or_else(|e| e.into_inner()).clone();
    for (i, (got, dt)) in res.iter().enumerate() {
        if !*got && *dt < d_ns {
            e.fail("timeout_early", &format!("operation {} with timeout {} ns failed with TimedOut after only {} ns", i, d_ns, dt));
        }
    }
    if res.len() == 2 && !res[1].0 && !e.t2_used() {
        e.fail("data_missed", "the recv reported TimedOut although a datagram arrived a quarter of the timeout into the call");
    }
    e.note(&format!("{:?}", res.iter().map(|r| r.0).collect::<Vec<_>>()));
}

pub fn build_c18(quick: bool) -> Vec<Scenario> {
    let mut v = vec![];
    let p = "C18";
    for w in [1usize, 2] {
        for d in [500_000u64, MS, 3 * MS / 2] {
            v.push(Scenario::new(p, "read_timeout", format!("read_timeout.{}ns.never.w{}", d, w), Arc::new(move |e| read_timeout(e, w, d, &[0], 0, false))).t2());
        }
        v.push(Scenario::new(p, "read_timeout", format!("read_timeout.2ms.data_at_1ms.w{}", w), Arc::new(move |e| read_timeout(e, w, 2 * MS, &[MS], 0, false))).t2());
        v.push(Scenario::new(p, "read_timeout", format!("read_timeout.1ms.data_at_3ms.w{}", w), Arc::new(move |e| read_timeout(e, w, MS, &[3 * MS], 0, false))).t2());
        // two operations on one socket: the first completes early, the second must not inherit its timer
        v.push(Scenario::new(p, "stale_timer", format!("read_timeout.2ms.early_then_never.w{}", w), Arc::new(move |e| read_timeout(e, w, 2 * MS, &[MS / 2, 0], 0, false))).t2());
        v.push(Scenario::new(p, "stale_timer", format!("read_timeout.2ms.never_then_data.w{}", w), Arc::new(move |e| read_timeout(e, w, 2 * MS, &[0, 3 * MS], 0, false))).t2());
        v.push(Scenario::new(p, "stale_timer", format!("read_timeout.2ms.read_meets_data_then_never.w{}", w), Arc::new(move |e| read_timeout(e, w, 2 * MS, &[MS / 2, 0], MS / 2, false))).t2().bound(2));
        // the same over TCP (TcpStream has its own read path)
        v.push(Scenario::new(p, "read_timeout", format!("tcp.read_timeout.2ms.data_at_1ms.w{}", w), Arc::new(move |e| read_timeout(e, w, 2 * MS, &[MS], 0, true))).t2());
        v.push(Scenario::new(p, "read_timeout", format!("tcp.read_timeout.1500000ns.never.w{}", w), Arc::new(move |e| read_timeout(e, w, 3 * MS / 2, &[0], 0, true))).t2());
        v.push(Scenario::new(p, "stale_timer", format!("tcp.read_timeout.2ms.read_meets_data_then_never.w{}", w), Arc::new(move |e| read_timeout(e, w, 2 * MS, &[MS / 2, 0], MS / 2, true))).t2().bound(2));
        v.push(Scenario::new(p, "udp_timeout", format!("udp.recv_from_meets_deadline.then_recv.2ms.w{}", w), Arc::new(move |e| udp_timeout_then_recv(e, w, 2 * MS))).t2().bound(2));
        // connect with a timeout: nobody answers / answered at once and the stream used beyond the connect's deadline
        for d in [MS / 2, 3 * MS / 2] {
            v.push(Scenario::new(p, "connect_timeout", format!("connect_timeout.{}ns.blackhole.C.w{}", d, w), Arc::new(move |e| connect_timeout(e, w, d, true, 'C'))).t2());
        }
        if w == 2 {
            v.push(Scenario::new(p, "connect_timeout", "connect_timeout.2ms.blackhole.T.w2", Arc::new(move |e| connect_timeout(e, 2, 2 * MS, true, 'T'))).t2());
        }
        v.push(Scenario::new(p, "connect_timeout", format!("connect_timeout.2ms.live_listener.then_untimed_read.C.w{}", w), Arc::new(move |e| connect_timeout(e, w, 2 * MS, false, 'C'))));
        v.push(Scenario::new(p, "connect_timeout", format!("connect_timeout.2ms.live_listener.then_untimed_read.T.w{}", w), Arc::new(move |e| connect_timeout(e, w, 2 * MS, false, 'T'))));
        for what in [Blocked::Read, Blocked::TimedRead, Blocked::Accept, Blocked::UdpRecv] {
            v.push(Scenario::new(p, "cancel_io", format!("cancel_io.{:?}.w{}", what, w).to_lowercase(), Arc::new(move |e| cancel_io(e, w, what))));
        }
    }
    v.into_iter()
        .map(|s| {
            // the fast-path member needs two deviations: guaranteed in both tiers
            let deep = s.name.contains("read_meets_data") && s.name.ends_with(".w1");
            // every execution of a blackhole member pays 2 ms of real time for its set-up (the poll that finds the accept
            // queue full): the quick tier stops at two deviations there - the lost-timeout window needs two
            let blackhole = s.name.contains(".blackhole.");
            let s = s.tier(quick);
            if blackhole && quick {
                s.bound(2).deepen(2, 6_000)
            } else if deep && s.bound < 2 {
                s.bound(2)
            } else {
                s
            }
        })
        .map(|s| s.vt_horizon(100 * MS).horizon(12_000))
        .collect()
}
