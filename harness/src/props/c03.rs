//! C03 - mpsc / spsc block queues are linearizable FIFO (component level, fine granularity)
use crate::alloc;
use crate::engine::Engine;
use crate::explore::Scenario;
use crate::hist::*;
use crate::util::*;
use std::collections::VecDeque;
use std::sync::Arc;

pub trait BQ: Send + Sync + 'static {
    const B: usize;
    const KIND: &'static str;
    fn new() -> Self;
    fn push(&self, v: Tracked);
    fn pop(&self) -> Option<Tracked>;
    fn bulk(&self) -> Vec<Tracked>;
    fn peek_id(&self) -> Option<u32>;
    fn len(&self) -> usize;
    fn is_empty(&self) -> bool;
}

impl BQ for may::queue::mpsc::Queue<Tracked> {
    const B: usize = may::queue::mpsc::BLOCK_SIZE;
    const KIND: &'static str = "mpsc";
    fn new() -> Self {
        may::queue::mpsc::Queue::new()
    }
    fn push(&self, v: Tracked) {
        may::queue::mpsc::Queue::push(self, v)
    }
    fn pop(&self) -> Option<Tracked> {
        may::queue::mpsc::Queue::pop(self)
    }
    fn bulk(&self) -> Vec<Tracked> {
        may::queue::mpsc::Queue::bulk_pop(self).into_iter().collect()
    }
    fn peek_id(&self) -> Option<u32> {
        unsafe { may::queue::mpsc::Queue::peek(self) }.map(|t| t.id())
    }
    fn len(&self) -> usize {
        may::queue::mpsc::Queue::len(self)
    }
    fn is_empty(&self) -> bool {
        may::queue::mpsc::Queue::is_empty(self)
    }
}

impl BQ for may::queue::spsc::Queue<Tracked> {
    const B: usize = may::queue::spsc::BLOCK_SIZE;
    const KIND: &'static str = "spsc";
    fn new() -> Self {
        may::queue::spsc::Queue::new()
    }
    fn push(&self, v: Tracked) {
        may::queue::spsc::Queue::push(self, v)
    }
    fn pop(&self) -> Option<Tracked> {
        may::queue::spsc::Queue::pop(self)
    }
    fn bulk(&self) -> Vec<Tracked> {
        may::queue::spsc::Queue::bulk_pop(self).into_iter().collect()
    }
    fn peek_id(&self) -> Option<u32> {
        unsafe { may::queue::spsc::Queue::peek(self) }.map(|t| t.id())
    }
    fn len(&self) -> usize {
        may::queue::spsc::Queue::len(self)
    }
    fn is_empty(&self) -> bool {
        may::queue::spsc::Queue::is_empty(self)
    }
}

const WARM: u32 = 250;

/// move head and tail to `off` by pushing and popping (block recycling / freeing happens on the way)
fn warm_up<Q: BQ>(q: &Q, off: usize) {
    // in chunks so that the spsc node cache sees a consumer that is behind
    let mut left = off;
    while left > 0 {
        let k = left.min(5);
        for _ in 0..k {
            q.push(Tracked::new(WARM));
        }
        for _ in 0..k {
            drop(q.pop().expect("warm-up pop"));
        }
        left -= k;
    }
}

fn cons_op<Q: BQ>(q: &Q, c: char) -> QOp {
    match c {
        'P' => QOp::Pop(q.pop().map(|t| t.id())),
        'B' => QOp::Bulk(q.bulk().iter().map(|t| t.id()).collect()),
        'K' => QOp::Peek(q.peek_id()),
        'L' => QOp::Len(q.len()),
        'E' => QOp::Empty(q.is_empty()),
        _ => unreachable!(),
    }
}

/// concurrent member: producers push while the consumer runs `cons`; then everything is drained
/// `pre` values (ids 100..) are in the queue when the window opens: the consumer lags behind the producers by up to
/// several blocks, so that a bulk_pop ends at a block boundary while the producers allocate / recycle blocks
fn member<Q: BQ>(e: &'static Engine, off: usize, pre: usize, prods: &[usize], cons: &str, drop_left: bool) {
    static H: Hist = Hist::new();
    let q = Arc::new(Q::new());
    warm_up(&*q, off);
    let init: Vec<u32> = (0..pre).map(|k| 100 + k as u32).collect();
    for id in init.iter() {
        q.push(Tracked::new(*id));
    }
    e.begin();
    let mut pushed: Vec<u32> = init.clone();
    for (p, n) in prods.iter().enumerate() {
        let q = q.clone();
        let n = *n;
        for k in 0..n {
            pushed.push((p * 10 + k + 1) as u32);
        }
        e.spawn("producer", move || {
            for k in 0..n {
                let id = (p * 10 + k + 1) as u32;
                H.run(p + 1, || {
                    q.push(Tracked::new(id));
                    QOp::Push(id)
                });
            }
        });
    }
    for c in cons.chars() {
        H.run(0, || cons_op(&*q, c));
    }
    e.join_all();
    if drop_left {
        // the queue is dropped with whatever is left in it
        let recs = H.take();
        check_lin(e, &recs, &init);
        drop(q);
        check_drops(e, pushed.iter().cloned().chain(std::iter::once(WARM)));
        e.note(&obs(&recs));
        return;
    }
    // sequential drain, still recorded (in bulks when many values are left: the checker takes at most 24 records)
    loop {
        match H.run(0, || cons_op(&*q, if pre > 0 { 'B' } else { 'P' })) {
            QOp::Pop(None) => break,
            QOp::Bulk(v) if v.is_empty() => break,
            _ => {}
        }
    }
    let recs = H.take();
    check_lin(e, &recs, &init);
    // everything pushed came out exactly once
    let mut got: Vec<u32> = vec![];
    for r in recs.iter() {
        match &r.op {
            QOp::Pop(Some(v)) => got.push(*v),
            QOp::Bulk(vs) => got.extend(vs.iter().cloned()),
            _ => {}
        }
    }
    let mut a = got.clone();
    a.sort();
    let mut b = pushed.clone();
    b.sort();
    if a != b {
        e.fail("exactly_once", &format!("pushed {:?} but obtained {:?}; history: {}", b, got, fmt_hist(&recs)));
    }
    // per producer order
    for p in 0..prods.len() {
        let mine: Vec<u32> = got.iter().cloned().filter(|v| *v < 100 && (*v as usize - 1) / 10 == p).collect();
        if mine.windows(2).any(|w| w[0] > w[1]) {
            e.fail("producer_order", &format!("values of producer {} out of order: {:?}", p, mine));
        }
    }
    drop(q);
    check_drops(e, pushed.iter().cloned().chain(std::iter::once(WARM)));
    e.note(&obs(&recs));
}

fn check_lin(e: &Engine, recs: &[Rec], init: &[u32]) {
    if linearizable_fifo(recs, init).is_none() {
        e.fail("linearizable_fifo", &format!("history is not linearizable to a FIFO queue: {}", fmt_hist(recs)));
    }
}

fn obs(recs: &[Rec]) -> String {
    let mut s = String::new();
    for r in recs.iter().filter(|r| r.thread == 0) {
        s.push_str(&match &r.op {
            QOp::Pop(v) => format!("P{:?}", v.map(|x| x as i64).unwrap_or(-1)),
            QOp::Bulk(v) => format!("B{}", fmt_list(v)),
            QOp::Peek(v) => format!("K{:?}", v.map(|x| x as i64).unwrap_or(-1)),
            QOp::Len(l) => format!("L{}", l),
            QOp::Empty(b) => format!("E{}", *b as u8),
            _ => String::new(),
        });
        s.push(' ');
    }
    s
}

/// sequential sweep: all operation sequences up to `depth` at the given offset against a VecDeque
fn sweep<Q: BQ>(e: &'static Engine, off: usize, depth: usize) {
    let alphabet = ['U', 'P', 'B', 'K', 'L'];
    let mut count = 0u64;
    let mut idx = vec![0usize; depth];
    // enumerate all sequences of exactly `depth` operations (prefixes cover the shorter ones)
    loop {
        let q = Q::new();
        warm_up(&q, off);
        let mut model: VecDeque<u32> = VecDeque::new();
        let mut next_id = 1u32;
        let mut pos = off;
        for (step, &i) in idx.iter().enumerate() {
            let c = alphabet[i];
            let ctx = || format!("offset {} sequence {:?} step {}", off, idx.iter().map(|i| alphabet[*i]).collect::<String>(), step);
            match c {
                'U' => {
                    q.push(Tracked::new(next_id));
                    model.push_back(next_id);
                    next_id += 1;
                }
                'P' => {
                    let got = q.pop().map(|t| t.id());
                    let want = model.pop_front();
                    if got != want {
                        e.fail("sequential_model", &format!("pop returned {:?}, model says {:?} at {}", got, want, ctx()));
                    }
                    if got.is_some() {
                        pos += 1;
                    }
                }
                'B' => {
                    let got: Vec<u32> = q.bulk().iter().map(|t| t.id()).collect();
                    // a bulk pop returns everything up to the block boundary
                    let room = Q::B - (pos % Q::B);
                    let k = model.len().min(room);
                    let want: Vec<u32> = model.drain(..k).collect();
                    if got != want {
                        e.fail("sequential_model", &format!("bulk_pop returned {:?}, model says {:?} at {}", got, want, ctx()));
                    }
                    pos += k;
                }
                'K' => {
                    let got = q.peek_id();
                    if got != model.front().cloned() {
                        e.fail("sequential_model", &format!("peek returned {:?}, model says {:?} at {}", got, model.front(), ctx()));
                    }
                }
                'L' => {
                    if q.len() != model.len() || q.is_empty() != model.is_empty() {
                        e.fail("sequential_model", &format!("len {} / is_empty {}, model len {} at {}", q.len(), q.is_empty(), model.len(), ctx()));
                    }
                }
                _ => unreachable!(),
            }
        }
        drop(q);
        check_drops(e, 1..next_id);
        count += 1;
        // next sequence
        let mut k = depth;
        loop {
            if k == 0 {
                e.count(count);
                e.note(&format!("sequences={}", count));
                return;
            }
            k -= 1;
            idx[k] += 1;
            if idx[k] < alphabet.len() {
                break;
            }
            idx[k] = 0;
        }
    }
}

fn mk<Q: BQ>(off: usize, prods: &'static [usize], cons: &'static str, drop_left: bool) -> Scenario {
    let name = format!(
        "{}.off{}.prod{}.cons{}{}",
        Q::KIND,
        off,
        prods.iter().map(|n| n.to_string()).collect::<Vec<_>>().join("_"),
        cons,
        if drop_left { ".dropleft" } else { "" }
    );
    Scenario::new("C03", Q::KIND, name, Arc::new(move |e| member::<Q>(e, off, 0, prods, cons, drop_left))).fine()
}

fn mk_lag<Q: BQ>(off: usize, pre: usize, prods: &'static [usize], cons: &'static str) -> Scenario {
    let name = format!("{}.off{}.pre{}.prod{}.cons{}", Q::KIND, off, pre, prods.iter().map(|n| n.to_string()).collect::<Vec<_>>().join("_"), cons);
    Scenario::new("C03", Q::KIND, name, Arc::new(move |e| member::<Q>(e, off, pre, prods, cons, false))).fine()
}

pub fn build(quick: bool) -> Vec<Scenario> {
    type M = may::queue::mpsc::Queue<Tracked>;
    type S = may::queue::spsc::Queue<Tracked>;
    let mut v = vec![];
    let d = if quick { 2 } else { 3 };
    // mpsc: two producers racing with the consumer around the block boundary
    let mb = <M as BQ>::B;
    let sb = <S as BQ>::B;
    let m_offs: Vec<usize> = if quick { vec![0, mb - 2, mb - 1] } else { vec![0, mb - 2, mb - 1, mb, mb + 1, 2 * mb - 1] };
    for off in m_offs.iter().cloned() {
        for cons in ["PPP", "BB", "LPK", "PBP"] {
            v.push(mk::<M>(off, &[1, 1], cons, false).bound(d));
        }
        if off != 0 {
            // len / is_empty right after a pop, while the push that closes the block is still in flight
            v.push(mk::<M>(off, &[1, 1], "PLE", false).bound(d));
            v.push(mk::<M>(off, &[2], "PLPE", false).bound(d));
            v.push(mk::<M>(off, &[2, 1], "PB", false).bound(if quick { 2 } else { 3 }));
            v.push(mk::<M>(off, &[2, 1], "BP", true).bound(2));
        }
    }
    if !quick {
        for off in [mb - 2, mb - 1] {
            v.push(mk::<M>(off, &[2, 2], "PBP", false).bound(2));
            v.push(mk::<M>(off, &[1, 1, 1], "BP", false).bound(2));
            v.push(mk::<M>(off, &[1, 1], "PP", false).bound(4));
        }
    }
    // spsc: one producer, block recycling through the node cache
    let s_offs: Vec<usize> = if quick { vec![0, sb - 1, 2 * sb - 1, 3 * sb - 2] } else { vec![0, sb - 2, sb - 1, sb, 2 * sb - 1, 3 * sb - 2, 3 * sb - 1, 4 * sb - 1] };
    for off in s_offs.iter().cloned() {
        for cons in ["PPP", "BB", "LPK"] {
            v.push(mk::<S>(off, &[3], cons, false).bound(d + 1));
        }
        v.push(mk::<S>(off, &[3], "P", true).bound(d + 1));
        if off != 0 {
            v.push(mk::<S>(off, &[2], "PLPE", false).bound(d + 1));
        }
    }
    // a lagging consumer: the queue holds one to two blocks when the window opens, the bulk_pop ends at a block boundary
    // while the producer finishes its tail block (spsc: takes a consumed block back from the node cache)
    for (off, pre) in [(0, 2 * sb - 1), (0, sb), (sb - 1, sb + 1), (0, 3 * sb - 1)] {
        if quick && pre == 3 * sb - 1 {
            continue;
        }
        v.push(mk_lag::<S>(off, pre, &[3], "BB").bound(d));
        v.push(mk_lag::<S>(off, pre, &[2], "BP").bound(d));
    }
    for (off, pre) in [(0, mb - 1), (mb - 1, 1), (0, 2 * mb - 1)] {
        if quick && pre == 2 * mb - 1 {
            continue;
        }
        v.push(mk_lag::<M>(off, pre, &[1, 1], "BB").bound(d));
        // (with two blocks queued a single producer and the consumer never touch the same words in different orders:
        // the member would be vacuous by the rule of the self-check)
        if pre != 2 * mb - 1 {
            v.push(mk_lag::<M>(off, pre, &[2], "BP").bound(d));
        }
    }
    if !quick {
        // both allocator modes and the descending base policy on the boundary members
        let extra: Vec<Scenario> = v
            .iter()
            .filter(|s| s.name.contains(&format!("off{}.", mb - 1)) || s.name.contains(&format!("off{}.", 2 * sb - 1)))
            .cloned()
            .collect();
        for s in extra {
            let mut r = s.clone().alloc(alloc::RECYCLE).bound(2);
            r.name = format!("{}.recycle", r.name);
            v.push(r);
            let mut r = s.clone().desc().bound(2);
            r.name = format!("{}.desc", r.name);
            v.push(r);
        }
    }
    // sequential sweeps
    let depth = if quick { 5 } else { 7 };
    for off in [0, mb - 2, mb - 1] {
        v.push(Scenario::new("C03", "sweep", format!("mpsc.sweep.off{}.depth{}", off, depth), Arc::new(move |e| sweep::<M>(e, off, depth))).fine().sequential().bound(0).horizon(u64::MAX));
    }
    for off in [0, sb - 1, 3 * sb - 2] {
        v.push(Scenario::new("C03", "sweep", format!("spsc.sweep.off{}.depth{}", off, depth), Arc::new(move |e| sweep::<S>(e, off, depth))).fine().sequential().bound(0).horizon(u64::MAX));
    }
    v
}
