//! evidence files, known findings, replay artefacts and verdict lines
use crate::engine::*;
use crate::explore::*;
use crate::props;
use serde_json::{json, Value};
use std::collections::BTreeSet;

const KNOWN: &str = "/verif/known_findings.json";

pub struct Known {
    pub id: String,
    pub property: String,
    pub scenario: String,
    pub clauses: Vec<String>,
    pub witness: Vec<String>,
    pub msg_contains: Vec<String>,
    pub text: String,
}

pub fn load_known() -> Vec<Known> {
    let v: Value = match std::fs::read(KNOWN).ok().and_then(|b| serde_json::from_slice(&b).ok()) {
        Some(v) => v,
        None => return vec![],
    };
    let strs = |x: &Value| -> Vec<String> { x.as_array().map(|a| a.iter().filter_map(|s| s.as_str().map(|s| s.to_string())).collect()).unwrap_or_default() };
    v["findings"]
        .as_array()
        .map(|a| {
            a.iter()
                .map(|f| Known {
                    id: f["id"].as_str().unwrap_or("").to_string(),
                    property: match &f["property"] {
                        Value::Array(a) => a.iter().filter_map(|x| x.as_str()).collect::<Vec<_>>().join(","),
                        x => x.as_str().unwrap_or("").to_string(),
                    },
                    scenario: f["scenario"].as_str().unwrap_or("*").to_string(),
                    clauses: strs(&f["clause"]),
                    witness: strs(&f["witness"]),
                    msg_contains: strs(&f["msg_contains"]),
                    text: f["text"].as_str().unwrap_or("").to_string(),
                })
                .collect()
        })
        .unwrap_or_default()
}

fn glob(pat: &str, s: &str) -> bool {
    let parts: Vec<&str> = pat.split('*').collect();
    if parts.len() == 1 {
        return pat == s;
    }
    let mut pos = 0usize;
    for (i, p) in parts.iter().enumerate() {
        if p.is_empty() {
            continue;
        }
        if i == 0 {
            if !s.starts_with(p) {
                return false;
            }
            pos = p.len();
        } else if i == parts.len() - 1 {
            return s.len() >= pos + p.len() && s[pos..].ends_with(p);
        } else {
            match s[pos..].find(p) {
                Some(k) => pos += k + p.len(),
                None => return false,
            }
        }
    }
    true
}

/// the ordered (label name, argument) pairs recorded in the failure message
fn labels_of(msg: &str) -> Vec<(String, String)> {
    for l in msg.lines() {
        if let Some(rest) = l.strip_prefix("labels: ") {
            return rest
                .split_whitespace()
                .map(|x| {
                    let name = x.split('@').next().unwrap_or("").to_string();
                    let arg = x.split_once('(').map(|p| p.1.trim_end_matches(')').to_string()).unwrap_or_default();
                    (name, arg)
                })
                .collect();
        }
    }
    vec![]
}

/// `witness` is an ordered list of label names; names ending in '#' must all carry the same argument;
/// a name starting with '!' must NOT occur between its positive neighbours
fn witness_matches(witness: &[String], labels: &[(String, String)]) -> bool {
    fn parse(w: &str) -> (bool, &str, bool) {
        let (neg, w) = match w.strip_prefix('!') {
            Some(r) => (true, r),
            None => (false, w),
        };
        match w.strip_suffix('#') {
            Some(n) => (neg, n, true),
            None => (neg, w, false),
        }
    }
    fn rec(w: &[String], labels: &[(String, String)], from: usize, arg: Option<&str>) -> bool {
        // collect the negative names in front of the next positive one
        let mut negs: Vec<(&str, bool)> = vec![];
        let mut k = 0;
        while k < w.len() {
            let (neg, name, same) = parse(&w[k]);
            if !neg {
                break;
            }
            negs.push((name, same));
            k += 1;
        }
        if k == w.len() {
            // only negatives left: they must not occur up to the end
            return !labels[from..].iter().any(|l| negs.iter().any(|(n, same)| l.0 == *n && (!same || arg.map(|a| a == l.1).unwrap_or(true))));
        }
        let (_, name, same) = parse(&w[k]);
        for i in from..labels.len() {
            let l = &labels[i];
            let is_neg = negs.iter().any(|(n, s)| l.0 == *n && (!s || arg.map(|a| a == l.1).unwrap_or(true)));
            if l.0 == name && (!same || arg.map(|a| a == l.1).unwrap_or(true)) {
                let a2 = if same { Some(l.1.as_str()) } else { arg };
                if rec(&w[k + 1..], labels, i + 1, a2) {
                    return true;
                }
            }
            if is_neg {
                return false;
            }
        }
        false
    }
    rec(witness, labels, 0, None)
}

pub fn matches_known(k: &Known, prop: &str, v: &Violation) -> bool {
    if !k.property.split(',').any(|p| p == prop) || !glob(&k.scenario, &v.scenario) {
        return false;
    }
    if !k.clauses.is_empty() && !k.clauses.iter().any(|c| glob(c, &v.clause)) {
        return false;
    }
    if !k.msg_contains.iter().all(|m| v.msg.contains(m.as_str())) {
        return false;
    }
    if !k.witness.is_empty() && !witness_matches(&k.witness, &labels_of(&v.msg)) {
        return false;
    }
    true
}

/// where evidence and replays go (default /verif; the self-test uses a scratch directory)
fn out_dir() -> String {
    std::env::var("MAYVERIF_OUT").unwrap_or_else(|_| "/verif".to_string())
}

fn write_replay(prop: &str, sc: &Scenario, v: &Violation) -> String {
    let _ = std::fs::create_dir_all(format!("{}/replays", out_dir()));
    let h = fnv64(&format!("{}{:?}{}", v.scenario, v.devs, v.clause));
    let safe: String = v.scenario.chars().map(|c| if c.is_ascii_alphanumeric() || c == '_' || c == '-' { c } else { '_' }).collect();
    let path = format!("{}/replays/{}-{}-{:08x}.json", out_dir(), prop, safe, h as u32);
    let j = json!({
        "property": prop, "scenario": v.scenario, "cfg": sc.cfg_json(),
        "deviations": v.devs.iter().map(|(i, a)| json!([i, a])).collect::<Vec<_>>(),
        "status": status_name(v.status), "clause": v.clause, "observation": v.out, "message": v.msg,
        "replay": format!("cd /verif && ./check {} --replay {}", prop, path),
    });
    let _ = std::fs::write(&path, serde_json::to_vec_pretty(&j).unwrap());
    path
}

pub fn finish(prop: &str, tier: &str, seed: u64, scs: &[Scenario], results: Vec<ScenarioResult>, mut machinery: Vec<String>, wall: f64) -> i32 {
    let known = load_known();
    let mut executions = 0u64;
    let mut sub_evals = 0u64;
    let mut states = 0u64;
    let mut transitions = 0u64;
    let mut sigs = 0usize;
    let mut outcomes = 0usize;
    let mut rechecks = 0u64;
    let mut both = 0usize;
    let mut sites: BTreeSet<u32> = BTreeSet::new();
    let mut exhaustive = true;
    let mut table: Vec<Value> = vec![];
    let mut samples: Vec<Value> = vec![];
    let mut viol_lines: Vec<String> = vec![];
    let mut known_lines: BTreeSet<String> = BTreeSet::new();
    let mut known_ids: BTreeSet<String> = BTreeSet::new();
    let mut n_viol = 0u64;
    let mut vacuous: Vec<String> = vec![];
    let mut min_bound: i64 = i64::MAX;
    let mut max_bound: i64 = 0;
    for r in results.iter() {
        let sc = scs.iter().find(|s| s.name == r.name).unwrap();
        executions += r.executions;
        sub_evals += r.sub_evals;
        states += r.states;
        transitions += r.transitions;
        sigs += r.sigs.len();
        outcomes += r.outcomes.len();
        rechecks += r.rechecks;
        both += r.both_orders();
        sites.extend(r.sites.iter());
        if r.capped.is_some() || r.bound_completed < r.bound_requested as i64 {
            exhaustive = false;
        }
        min_bound = min_bound.min(r.bound_completed);
        max_bound = max_bound.max(r.bound_completed);
        machinery.extend(r.machinery.iter().cloned());
        if !sc.sequential && (r.threads_active_max < 2 || r.sigs.len() < 2) {
            vacuous.push(format!("{} (active threads {}, distinct conflict signatures {})", r.name, r.threads_active_max, r.sigs.len()));
        }
        table.push(json!({
            "scenario": r.name, "family": r.family, "cfg": r.cfg, "executions": r.executions, "per_level": r.per_level,
            "choice_points_default_execution": r.n0, "max_choice_points": r.max_n, "max_steps": r.max_steps,
            "bound_requested": r.bound_requested, "bound_completed": r.bound_completed, "capped": r.capped, "schedule_tree_exhausted": r.tree_exhausted,
            "distinct_outcomes": r.outcomes.len(), "distinct_conflict_signatures": r.sigs.len(),
            "conflict_pairs_both_orders": r.both_orders(), "active_threads": r.threads_active_max,
            "recycled_allocations_max": r.reused_max, "sequential_cases": r.sub_evals,
            "statuses": r.statuses, "violations": r.violation_count, "wall_s": (r.wall * 100.0).round() / 100.0,
        }));
        if samples.len() < 6 {
            if let Some(s) = &r.sample {
                samples.push(s.clone());
            }
        }
        // verdicts
        let mut unlisted = 0u64;
        for v in r.violations.iter() {
            match known.iter().find(|k| matches_known(k, prop, v)) {
                Some(k) => {
                    known_ids.insert(k.id.clone());
                    known_lines.insert(format!("KNOWN-FINDING: property={} {} [{}]", prop, k.text, k.id));
                }
                None => {
                    unlisted += 1;
                    if viol_lines.len() < 10 {
                        let path = write_replay(prop, sc, v);
                        viol_lines.push(format!("VIOLATION property={} replay={}", prop, path));
                        eprintln!("--- {} clause={} devs={:?}\n{}", v.scenario, v.clause, v.devs, v.msg.lines().take(12).collect::<Vec<_>>().join("\n"));
                    }
                }
            }
        }
        // violations beyond the stored ones count as unlisted only if some stored one was unlisted
        if unlisted > 0 {
            n_viol += r.violation_count.min(unlisted.max(1));
        }
    }
    if !vacuous.is_empty() {
        machinery.push(format!("vacuous scenarios (self-check): {}", vacuous.join("; ")));
    }
    if min_bound == i64::MAX {
        min_bound = -1;
    }
    let rule = "cases = complete executions of the real code under the controlled scheduler, enumerated breadth-first by number of deviations \
                from the default schedule (every deviation set up to the bound exactly once); a case is non-trivial and distinct iff its conflict \
                signature is new for its scenario: the ordered list of (hook site, thread) of all accesses to addresses that were touched by >= 2 \
                threads with >= 1 write in that execution";
    let ev = json!({
        "property_id": prop,
        "tier": tier,
        "seed": seed,
        "level": "model_checking",
        "coverage": {
            "states": states.max(1),
            "transitions": transitions.max(1),
            "traces_validated_against_impl": executions,
            "evaluations": executions + sub_evals,
            "sequential_cases_inside_executions": sub_evals,
            "distinct_nontrivial": sigs,
            "rule": rule,
            "samples": samples,
            "exhaustive": exhaustive,
            "exhaustive_note": "exhaustive = every scenario finished every level up to its requested deviation bound; within that bound the enumeration is complete, beyond it nothing is claimed",
            "deviation_bound_completed_min": min_bound,
            "deviation_bound_completed_max": max_bound,
            "scenarios": table.len(),
            "distinct_outcomes_total": outcomes,
            "conflict_pairs_both_orders_total": both,
            "hook_sites_hit": sites.len(),
            "determinism_rechecks": rechecks,
            "known_findings_matched": known_ids.iter().collect::<Vec<_>>(),
            "machinery_faults": machinery,
            "scenario_table": table,
            "explanation": "states = choice-point nodes visited in the schedule tree; transitions = scheduling steps executed; every trace is an execution of the implementation itself (no separate model), so traces_validated_against_impl = executions",
        },
        "assumptions": [
            "sequentially consistent interleavings; only the scenarios whose cfg says store_buffer additionally let one load overtake one held-back non-SeqCst store of the listed source files (restricted x86-TSO); no other weak-memory reorderings",
            "bounded: 2-5 participants, 1-3 operations each, deviations <= bound per scenario_table",
            "uninstrumented and trusted: generator context switch, crossbeam SegQueue/AtomicCell, std Arc/Once, Linux kernel (determinism checked by fingerprint)",
            "hooks compiled with --cfg may_verif change no behaviour when no engine is installed (repo suite passes with them compiled in)"
        ],
        "wall_s": (wall * 100.0).round() / 100.0,
        "violations": n_viol,
    });
    let _ = std::fs::create_dir_all(format!("{}/evidence", out_dir()));
    let path = format!("{}/evidence/{}.json", out_dir(), prop);
    std::fs::write(&path, serde_json::to_vec_pretty(&ev).unwrap()).unwrap();
    // the last run of each tier is kept next to it (<id>.json is always the most recent run)
    let _ = std::fs::write(format!("{}/evidence/{}.{}.json", out_dir(), prop, tier), serde_json::to_vec_pretty(&ev).unwrap());
    println!(
        "{} {}: scenarios={} executions={} states={} transitions={} distinct_signatures={} outcomes={} bound_completed={}..{} exhaustive={} wall={:.1}s",
        prop, tier, results.len(), executions, states, transitions, sigs, outcomes, min_bound, max_bound, exhaustive, wall
    );
    for l in known_lines.iter() {
        println!("{}", l);
    }
    for l in viol_lines.iter() {
        println!("{}", l);
    }
    if !viol_lines.is_empty() {
        return 1;
    }
    if !machinery.is_empty() {
        for m in machinery.iter().take(10) {
            eprintln!("MACHINERY-FAULT: {}", m);
        }
        return 2;
    }
    0
}

/// replay one recorded schedule twice, assert identical observations
pub fn replay(path: &str) -> i32 {
    let v: Value = match std::fs::read(path).ok().and_then(|b| serde_json::from_slice(&b).ok()) {
        Some(v) => v,
        None => {
            eprintln!("cannot read {}", path);
            return 2;
        }
    };
    let prop = v["property"].as_str().unwrap_or("");
    let name = v["scenario"].as_str().unwrap_or("");
    let devs: Vec<(u32, u8)> = v["deviations"].as_array().map(|d| d.iter().map(|p| (p[0].as_u64().unwrap_or(0) as u32, p[1].as_u64().unwrap_or(0) as u8)).collect()).unwrap_or_default();
    let mut found = None;
    for tier in ["quick", "thorough"] {
        for s in props::build(prop, tier) {
            if s.name == name && s.cfg_json()["coarse"] == v["cfg"]["coarse"] && s.cfg_json()["t2"] == v["cfg"]["t2"] && s.cfg_json()["desc"] == v["cfg"]["desc"] && s.cfg_json()["alloc"] == v["cfg"]["alloc"] {
                found = Some(s);
                break;
            }
        }
        if found.is_some() {
            break;
        }
    }
    let sc = match found {
        Some(s) => s,
        None => {
            eprintln!("scenario {} of {} not found", name, prop);
            return 2;
        }
    };
    let sched = Sched { devs: devs.clone(), expect_fp: 0 };
    let (a, chosen, _) = run_once(&sc, &sched);
    let (b, _, _) = run_once(&sc, &sched);
    println!("replay of {} deviations={:?}", name, devs);
    println!("choices taken: {:?}", chosen.iter().enumerate().filter(|(_, c)| **c != 0).collect::<Vec<_>>());
    println!("run 1: status={} clause={} observation=[{}]", status_name(a.status), a.clause, a.out);
    println!("run 2: status={} clause={} observation=[{}]", status_name(b.status), b.clause, b.out);
    if a.status != b.status || a.out != b.out || a.clause != b.clause || a.n_choices != b.n_choices {
        println!("NONDETERMINISM: the two replays differ");
        return 2;
    }
    println!("{}", a.msg);
    if a.status == ST_OK {
        println!("replay passes (property held on this schedule)");
        0
    } else {
        let viol = Violation { scenario: name.to_string(), status: a.status, clause: a.clause.clone(), msg: a.msg.clone(), devs, out: a.out.clone(), known: false };
        if let Some(k) = load_known().iter().find(|k| matches_known(k, prop, &viol)) {
            println!("KNOWN-FINDING: property={} {} [{}]", prop, k.text, k.id);
            return 0;
        }
        println!("VIOLATION property={} replay={}", prop, path);
        1
    }
}
