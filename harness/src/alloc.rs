//! Deterministic global allocator with two exploration modes (DESIGN §3.8).
//!
//! * `Passthrough`: the system allocator (explorer process, start-up).
//! * `Recycle`: a freed block is the next one returned for its size class, from
//!   any thread (LIFO) - makes ABA on recycled queue blocks reachable.
//! * `Quarantine`: freed blocks are filled with 0xDD and never reused - turns a
//!   use-after-free into a wrong value or a fault in that very execution.
//!
//! Only blocks of at most `MAX_SIZE` bytes take part; larger ones go to the system.
use std::alloc::{GlobalAlloc, Layout, System};
use std::sync::atomic::{AtomicBool, AtomicU8, AtomicUsize, Ordering};

pub const PASSTHROUGH: u8 = 0;
pub const RECYCLE: u8 = 1;
pub const QUARANTINE: u8 = 2;

const MAX_SIZE: usize = 8192;
const CLASSES: usize = MAX_SIZE / 8 + 1;
const ALIGNS: usize = 5; // <=16, 32, 64, 128, 256

static MODE: AtomicU8 = AtomicU8::new(PASSTHROUGH);
static LOCK: AtomicBool = AtomicBool::new(false);
static mut HEADS: [[usize; CLASSES]; ALIGNS] = [[0; CLASSES]; ALIGNS];
pub static REUSED: AtomicUsize = AtomicUsize::new(0);
pub static QUARANTINED: AtomicUsize = AtomicUsize::new(0);

/// blocks freed in quarantine mode (never reused), for use-after-free detection at hook points
const MAX_FREED: usize = 8192;
static mut FREED: [(usize, usize); MAX_FREED] = [(0, 0); MAX_FREED];
static NFREED: AtomicUsize = AtomicUsize::new(0);

/// is `addr` inside a block that was freed in quarantine mode?
pub fn quarantined(addr: usize) -> bool {
    if MODE.load(Ordering::Relaxed) != QUARANTINE {
        return false;
    }
    let n = NFREED.load(Ordering::Acquire).min(MAX_FREED);
    let f = unsafe { &*std::ptr::addr_of!(FREED) };
    if f[..n].iter().any(|(p, l)| addr >= *p && addr < *p + *l) {
        return true;
    }
    let n = NDEAD.load(Ordering::Acquire).min(MAX_DEAD);
    let d = unsafe { &*std::ptr::addr_of!(DEAD) };
    d[..n].iter().any(|(p, l)| *l != 0 && addr >= *p && addr < *p + *l)
}

/// objects that do not live on the heap (a stack frame that reported its own end through hook labels)
const MAX_DEAD: usize = 64;
static mut DEAD: [(usize, usize); MAX_DEAD] = [(0, 0); MAX_DEAD];
static NDEAD: AtomicUsize = AtomicUsize::new(0);

/// called by the engine under its lock
pub fn mark_dead(addr: usize, len: usize) {
    let n = NDEAD.load(Ordering::Acquire);
    if n < MAX_DEAD {
        unsafe { (*std::ptr::addr_of_mut!(DEAD))[n] = (addr, len.max(1)) };
        NDEAD.store(n + 1, Ordering::Release);
    }
}

/// the address is in use again
pub fn unmark_dead(addr: usize) {
    let n = NDEAD.load(Ordering::Acquire).min(MAX_DEAD);
    let d = unsafe { &mut *std::ptr::addr_of_mut!(DEAD) };
    for e in d[..n].iter_mut() {
        if e.0 == addr {
            *e = (0, 0);
        }
    }
}

pub struct DetAlloc;

pub fn set_mode(m: u8) {
    MODE.store(m, Ordering::SeqCst);
}

pub fn mode_name(m: u8) -> &'static str {
    match m {
        RECYCLE => "recycle",
        QUARANTINE => "quarantine",
        _ => "system",
    }
}

#[inline]
fn class(l: &Layout) -> Option<(usize, usize)> {
    // only exact multiples of 8 so that a block fits every request of its class,
    // whatever mode it was allocated in
    if l.size() < 8 || l.size() > MAX_SIZE || l.size() % 8 != 0 {
        return None;
    }
    let a = match l.align() {
        0..=16 => 0,
        32 => 1,
        64 => 2,
        128 => 3,
        256 => 4,
        _ => return None,
    };
    Some((a, l.size() / 8))
}

#[inline]
fn lock() {
    while LOCK.swap(true, Ordering::Acquire) {
        std::hint::spin_loop();
    }
}

#[inline]
fn unlock() {
    LOCK.store(false, Ordering::Release);
}

unsafe impl GlobalAlloc for DetAlloc {
    unsafe fn alloc(&self, l: Layout) -> *mut u8 {
        if MODE.load(Ordering::Relaxed) == RECYCLE {
            if let Some((a, c)) = class(&l) {
                lock();
                let heads = &mut *std::ptr::addr_of_mut!(HEADS);
                let p = heads[a][c];
                if p != 0 {
                    heads[a][c] = *(p as *const usize);
                }
                unlock();
                if p != 0 {
                    REUSED.fetch_add(1, Ordering::Relaxed);
                    return p as *mut u8;
                }
            }
        }
        System.alloc(l)
    }

    unsafe fn dealloc(&self, p: *mut u8, l: Layout) {
        match MODE.load(Ordering::Relaxed) {
            RECYCLE => {
                if let Some((a, c)) = class(&l) {
                    lock();
                    let heads = &mut *std::ptr::addr_of_mut!(HEADS);
                    *(p as *mut usize) = heads[a][c];
                    heads[a][c] = p as usize;
                    unlock();
                    return;
                }
                System.dealloc(p, l)
            }
            QUARANTINE => {
                if l.size() <= 1 << 16 {
                    std::ptr::write_bytes(p, 0xDD, l.size());
                    QUARANTINED.fetch_add(1, Ordering::Relaxed);
                    lock();
                    let n = NFREED.load(Ordering::Relaxed);
                    if n < MAX_FREED {
                        (*std::ptr::addr_of_mut!(FREED))[n] = (p as usize, l.size());
                        NFREED.store(n + 1, Ordering::Release);
                    }
                    unlock();
                    return;
                }
                System.dealloc(p, l)
            }
            _ => System.dealloc(p, l),
        }
    }
}
