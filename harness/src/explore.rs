//! `detsched`, explorer side: stateless, deviation bounded, breadth first search
//! over schedules; every execution runs in a forked child (DESIGN §3.4, §3.5).
use crate::alloc;
use crate::engine::*;
use serde_json::{json, Value};
use std::collections::{BTreeMap, BTreeSet, HashSet};
use std::sync::Arc;
use std::time::Instant;

pub type RunFn = Arc<dyn Fn(&'static Engine) + Send + Sync>;

#[derive(Clone)]
pub struct Scenario {
    pub prop: &'static str,
    pub family: &'static str,
    pub name: String,
    pub cfg: EngineCfg,
    pub alloc: u8,
    /// deviation bound that is always completed (unless a cap hits)
    pub bound: usize,
    /// deeper levels are explored while the next level still fits into `budget` executions
    pub bound_max: usize,
    pub budget: u64,
    /// cap on executions (0 = none) and wall clock seconds (0 = none)
    pub max_execs: u64,
    pub max_wall: f64,
    /// number of explorer shards (split by level-1 prefix)
    pub shards: usize,
    /// a deadlock/stall at the end is acceptable for this scenario (the scenario decides itself)
    pub hang_ok: bool,
    /// the scenario is sequential: no vacuity (conflict) requirement
    pub sequential: bool,
    pub run: RunFn,
}

impl Scenario {
    pub fn new(prop: &'static str, family: &'static str, name: impl Into<String>, run: RunFn) -> Scenario {
        Scenario {
            prop,
            family,
            name: name.into(),
            cfg: EngineCfg::default(),
            alloc: alloc::QUARANTINE,
            bound: 2,
            bound_max: 2,
            budget: 0,
            max_execs: 0,
            max_wall: 0.0,
            shards: 1,
            hang_ok: false,
            sequential: false,
            run,
        }
    }
    /// every atomic and payload access is a scheduling point, plus one after every store / RMW
    pub fn fine(mut self) -> Self {
        self.cfg.coarse = false;
        self.cfg.post_points = true;
        self
    }
    pub fn post_points(mut self, b: bool) -> Self {
        self.cfg.post_points = b;
        self
    }
    pub fn t2(mut self) -> Self {
        self.cfg.t2 = true;
        self
    }
    /// store-buffer model: a non-SeqCst store may be held back (costed deviation), see EngineCfg::tso
    pub fn tso(mut self, files: &'static [&'static str]) -> Self {
        self.cfg.tso = true;
        self.cfg.tso_files = files;
        self
    }
    /// std::thread::park may return spuriously: offered as a costed deviation
    pub fn spurious(mut self) -> Self {
        self.cfg.spurious = true;
        self
    }
    pub fn bound(mut self, b: usize) -> Self {
        self.bound = b;
        self.bound_max = self.bound_max.max(b);
        self
    }
    /// default exploration depth policy of a tier: a guaranteed bound plus deepening while the next level fits
    /// (runtime scenarios have 40-120 choice points per execution, component scenarios 10-40)
    pub fn tier(self, quick: bool) -> Self {
        let fine = !self.cfg.coarse;
        match (quick, fine) {
            (true, false) => self.bound(1).deepen(4, 6_000),
            (true, true) => self.bound(2).deepen(5, 6_000),
            // thorough: sharded by level-1 prefix (the budget is per shard) so that one large scenario does not end up on
            // a single explorer while the other cores idle
            (false, false) => {
                let sh = self.shards.max(4);
                self.bound(2).deepen(5, 25_000).shards(sh)
            }
            (false, true) => {
                let sh = self.shards.max(3);
                self.bound(3).deepen(6, 40_000).shards(sh)
            }
        }
    }
    /// go deeper than `bound` (up to `max`) as long as the whole next level fits into `budget` executions
    pub fn deepen(mut self, max: usize, budget: u64) -> Self {
        self.bound_max = max.max(self.bound);
        self.budget = budget;
        self
    }
    pub fn desc(mut self) -> Self {
        self.cfg.desc = true;
        self
    }
    pub fn alloc(mut self, a: u8) -> Self {
        self.alloc = a;
        self
    }
    pub fn vt_horizon(mut self, ns: u64) -> Self {
        self.cfg.vt_horizon = ns;
        self
    }
    pub fn horizon(mut self, steps: u64) -> Self {
        self.cfg.horizon = steps;
        self
    }
    /// consecutive steps one thread may take before the default choice rotates to another enabled thread
    pub fn fair(mut self, n: u64) -> Self {
        self.cfg.fair = n;
        self
    }
    pub fn caps(mut self, execs: u64, wall: f64) -> Self {
        self.max_execs = execs;
        self.max_wall = wall;
        self
    }
    pub fn shards(mut self, n: usize) -> Self {
        self.shards = n.max(1);
        self
    }
    pub fn hang_ok(mut self) -> Self {
        self.hang_ok = true;
        self
    }
    pub fn sequential(mut self) -> Self {
        self.sequential = true;
        self
    }
    pub fn cfg_json(&self) -> Value {
        json!({
            "coarse": self.cfg.coarse, "post_points": self.cfg.post_points, "spurious_park": self.cfg.spurious, "store_buffer": self.cfg.tso, "t2": self.cfg.t2, "desc": self.cfg.desc, "horizon": self.cfg.horizon,
            "vt_horizon_ns": self.cfg.vt_horizon, "fair": self.cfg.fair, "alloc": alloc::mode_name(self.alloc),
            "bound": self.bound, "bound_max": self.bound_max, "deepen_budget": self.budget
        })
    }
}

#[derive(Clone, Debug)]
pub struct Sched {
    pub devs: Vec<(u32, u8)>,
    pub expect_fp: u64,
}

#[derive(Clone, Debug)]
pub struct Violation {
    pub scenario: String,
    pub status: u32,
    pub clause: String,
    pub msg: String,
    pub devs: Vec<(u32, u8)>,
    pub out: String,
    /// matches an entry of the known-findings file (decided when it is recorded: listed and unlisted violations have
    /// separate storage quotas, and only unlisted ones can end a scenario early)
    pub known: bool,
}

fn known_list() -> &'static Vec<crate::report::Known> {
    static K: std::sync::OnceLock<Vec<crate::report::Known>> = std::sync::OnceLock::new();
    K.get_or_init(crate::report::load_known)
}

/// summary of one execution as read from the shared page
#[derive(Clone, Debug)]
pub struct ExecSummary {
    pub status: u32,
    pub n_choices: u32,
    pub steps: u64,
    pub now: u64,
    pub sig: u64,
    pub out: String,
    pub clause: String,
    pub msg: String,
    pub threads_active: u32,
    pub reused: u32,
    pub sub_evals: u64,
}

impl ExecSummary {
    fn digest(&self) -> String {
        format!("{}|{}|{}|{}|{:x}|{}|{}", self.status, self.n_choices, self.steps, self.now, self.sig, self.out, self.clause)
    }
}

pub struct Slot {
    shared: *mut Shared,
    pid: i32,
    sched: Sched,
    started: Instant,
    /// how often this schedule was started again because the OS was out of a resource
    env_retries: u32,
}

fn new_slot() -> Slot {
    unsafe {
        let p = libc::mmap(
            std::ptr::null_mut(),
            std::mem::size_of::<Shared>(),
            libc::PROT_READ | libc::PROT_WRITE,
            libc::MAP_SHARED | libc::MAP_ANONYMOUS,
            -1,
            0,
        );
        assert!(p != libc::MAP_FAILED);
        Slot {
            shared: p as *mut Shared,
            pid: 0,
            sched: Sched {
                devs: vec![],
                expect_fp: 0,
            },
            started: Instant::now(),
            env_retries: 0,
        }
    }
}

/// A thread of the child that sleeps inside a *socket* system call (read, write, accept, connect, send*, recv*) is
/// something no execution may contain: every socket the runtime hands out is non-blocking, a call that finds nothing
/// to do returns EAGAIN and the caller is suspended by the runtime (and thereby by the engine). If a thread is found
/// sleeping in the same socket call (same arguments, same stack pointer) by three looks in a row, 300 ms of real time
/// apart, the call is a blocking one: the worker is lost to every coroutine that depends on it. Reported as a
/// violation (`blocked_in_kernel`) instead of waiting for the child's 60 s alarm, which is a machinery fault. Real
/// time only decides *when* the look happens; a non-blocking call never sleeps interruptibly, so load cannot produce
/// the pattern.
fn kernel_block_watchdog(e: &'static Engine) {
    const NRS: &[(i64, &str)] = &[(0, "read"), (1, "write"), (19, "readv"), (20, "writev"), (42, "connect"), (43, "accept"), (44, "sendto"), (45, "recvfrom"), (46, "sendmsg"), (47, "recvmsg"), (288, "accept4")];
    let mut seen: std::collections::HashMap<i32, (String, u32)> = std::collections::HashMap::new();
    loop {
        std::thread::sleep(std::time::Duration::from_millis(300));
        let mut cur = std::collections::HashMap::new();
        let Ok(rd) = std::fs::read_dir("/proc/self/task") else { continue };
        for ent in rd.flatten() {
            let Some(tid) = ent.file_name().to_str().and_then(|s| s.parse::<i32>().ok()) else { continue };
            let Ok(line) = std::fs::read_to_string(format!("/proc/self/task/{}/syscall", tid)) else { continue };
            let mut it = line.split_whitespace();
            let Some(nr) = it.next().and_then(|s| s.parse::<i64>().ok()) else { continue };
            let Some(name) = NRS.iter().find(|x| x.0 == nr).map(|x| x.1) else { continue };
            let Some(fd) = it.next().and_then(|s| i64::from_str_radix(s.trim_start_matches("0x"), 16).ok()) else { continue };
            let is_socket = std::fs::read_link(format!("/proc/self/fd/{}", fd)).map(|p| p.to_string_lossy().starts_with("socket:")).unwrap_or(false);
            let sleeping = std::fs::read_to_string(format!("/proc/self/task/{}/stat", tid)).map(|s| s.rsplit_once(") ").map(|x| x.1.starts_with('S')).unwrap_or(false)).unwrap_or(false);
            if !is_socket || !sleeping {
                continue;
            }
            let n = match seen.get(&tid) {
                Some((l, n)) if *l == line => n + 1,
                _ => 1,
            };
            if n >= 3 {
                e.finish(ST_FAIL, "blocked_in_kernel", &format!("a thread sleeps inside the system call {}(fd {}) on a socket (seen by three looks 300 ms apart): the call blocked its thread in the kernel instead of suspending the caller; whoever depends on that worker stays suspended", name, fd));
            }
            cur.insert(tid, (line, n));
        }
        seen = cur;
    }
}

/// runs in the forked child, never returns
pub fn child_main(sc: &Scenario, shared: *mut Shared, sched: &Sched) -> ! {
    unsafe {
        // a child that runs into real time trouble is killed by SIGALRM (machinery fault)
        libc::alarm(60);
        // no core dumps for crashing executions
        let rl = libc::rlimit { rlim_cur: 0, rlim_max: 0 };
        libc::setrlimit(libc::RLIMIT_CORE, &rl);
    }
    let e = Engine::new(shared, sched.devs.clone(), sched.expect_fp, sc.cfg.clone());
    std::thread::spawn(move || kernel_block_watchdog(e));
    alloc::set_mode(sc.alloc);
    let run = sc.run.clone();
    let r = std::panic::catch_unwind(std::panic::AssertUnwindSafe(|| run(e)));
    match r {
        Ok(()) => e.ok(),
        Err(p) => {
            let msg = if let Some(s) = p.downcast_ref::<&str>() {
                s.to_string()
            } else if let Some(s) = p.downcast_ref::<String>() {
                s.clone()
            } else {
                "<non-string payload>".to_string()
            };
            let all = e.panics().join(" | ");
            e.finish(ST_PANIC, "unexpected_panic", &format!("scenario main thread panicked: {} [{}]", msg, all))
        }
    }
}

fn launch(sc: &Scenario, slot: &mut Slot, sched: Sched) {
    unsafe {
        let s = &mut *slot.shared;
        s.status = ST_NONE;
        s.n_choices = 0;
        s.msg_len = 0;
        s.out_len = 0;
        s.clause_len = 0;
        s.n_pairs = 0;
        s.n_sites = 0;
        s.ring_len = 0;
        s.sub_evals = 0;
        s.steps = 0;
        s.sig_hash = 0;
        let pid = libc::fork();
        assert!(pid >= 0, "fork failed");
        if pid == 0 {
            child_main(sc, slot.shared, &sched);
        }
        slot.pid = pid;
        slot.sched = sched;
        slot.started = Instant::now();
        slot.env_retries = 0;
    }
}

fn read_summary(slot: &Slot, wstatus: i32) -> ExecSummary {
    let sh = unsafe { &*slot.shared };
    let exited_ok = libc::WIFEXITED(wstatus) && libc::WEXITSTATUS(wstatus) == 0;
    let mut status = sh.status;
    let mut clause = String::from_utf8_lossy(&sh.clause[..(sh.clause_len as usize).min(128)]).to_string();
    let mut msg = String::from_utf8_lossy(&sh.msg[..(sh.msg_len as usize).min(MSG_CAP)]).to_string();
    if !exited_ok || status == ST_NONE {
        if libc::WIFSIGNALED(wstatus) && libc::WTERMSIG(wstatus) == libc::SIGALRM {
            status = ST_TIMEOUT;
            clause = "child_timeout".into();
            msg = "child exceeded its real time budget".into();
        } else {
            status = ST_CRASH;
            clause = if libc::WIFSIGNALED(wstatus) {
                format!("crash(signal {})", libc::WTERMSIG(wstatus))
            } else {
                format!("crash(exit code {})", libc::WEXITSTATUS(wstatus))
            };
            let ring = String::from_utf8_lossy(&sh.ring[..(sh.ring_len as usize).min(RING_CAP)]).to_string();
            msg = format!("child process died: {}\nlabels: {}\n", clause, ring);
        }
    }
    ExecSummary {
        status,
        n_choices: sh.n_choices,
        steps: sh.steps,
        now: sh.now,
        sig: sh.sig_hash,
        out: String::from_utf8_lossy(&sh.out[..(sh.out_len as usize).min(OUT_CAP)]).to_string(),
        clause,
        msg,
        threads_active: sh.threads_active,
        reused: sh.reused,
        sub_evals: sh.sub_evals,
    }
}

/// run one schedule to completion in a child and return its summary (used by replay)
pub fn run_once(sc: &Scenario, sched: &Sched) -> (ExecSummary, Vec<u8>, Vec<u8>) {
    let mut slot = new_slot();
    launch(sc, &mut slot, sched.clone());
    let mut st = 0;
    unsafe { libc::waitpid(slot.pid, &mut st, 0) };
    let sum = read_summary(&slot, st);
    let sh = unsafe { &*slot.shared };
    let n = sh.n_choices as usize;
    (sum, sh.chosen[..n].to_vec(), sh.alts[..n].to_vec())
}

/// wall clock cap per scenario (and shard) when the scenario does not set its own: far above what any scenario needs on
/// the unchanged tree (seconds), it only keeps a run on a broken tree - where every execution may run into its step
/// horizon - from taking hours. A capped scenario is reported as not exhaustive. MAYVERIF_WALL_CAP_S overrides.
fn default_wall_cap() -> f64 {
    std::env::var("MAYVERIF_WALL_CAP_S").ok().and_then(|s| s.parse().ok()).unwrap_or(600.0)
}

#[derive(Default)]
pub struct ScenarioResult {
    pub name: String,
    pub family: String,
    pub cfg: Value,
    pub executions: u64,
    pub per_level: Vec<u64>,
    pub bound_requested: usize,
    pub bound_completed: i64,
    pub capped: Option<String>,
    pub tree_exhausted: bool,
    pub n0: u32,
    pub max_n: u32,
    pub max_steps: u64,
    pub states: u64,
    pub transitions: u64,
    pub outcomes: BTreeMap<String, u64>,
    pub statuses: BTreeMap<String, u64>,
    pub sigs: HashSet<u64>,
    pub pairs: HashSet<u64>,
    pub sites: BTreeSet<u32>,
    pub threads_active_max: u32,
    pub reused_max: u32,
    pub sub_evals: u64,
    pub violations: Vec<Violation>,
    pub violation_count: u64,
    pub machinery: Vec<String>,
    pub rechecks: u64,
    pub sample: Option<Value>,
    pub wall: f64,
}

impl ScenarioResult {
    pub fn both_orders(&self) -> usize {
        self.pairs.iter().filter(|p| {
            let (a, b) = ((*p >> 32) as u32, (*p & 0xffff_ffff) as u32);
            a != b && self.pairs.contains(&(((b as u64) << 32) | a as u64))
        }).count() / 2
            + self.pairs.iter().filter(|p| ((*p >> 32) as u32) == ((*p & 0xffff_ffff) as u32)).count()
    }

    pub fn to_json(&self) -> Value {
        json!({
            "name": self.name, "family": self.family, "cfg": self.cfg,
            "executions": self.executions, "per_level": self.per_level,
            "bound_requested": self.bound_requested, "bound_completed": self.bound_completed,
            "capped": self.capped, "tree_exhausted": self.tree_exhausted, "n0": self.n0, "max_choice_points": self.max_n, "max_steps": self.max_steps,
            "states": self.states, "transitions": self.transitions,
            "outcomes": self.outcomes, "statuses": self.statuses,
            "sigs": self.sigs.iter().map(|s| format!("{:x}", s)).collect::<Vec<_>>(),
            "pairs": self.pairs.iter().map(|s| format!("{:x}", s)).collect::<Vec<_>>(),
            "sites": self.sites.iter().collect::<Vec<_>>(),
            "threads_active_max": self.threads_active_max, "reused_max": self.reused_max, "sub_evals": self.sub_evals,
            "violation_count": self.violation_count,
            "violations": self.violations.iter().map(|v| json!({
                "scenario": v.scenario, "status": v.status, "clause": v.clause, "msg": v.msg, "out": v.out, "known": v.known,
                "devs": v.devs.iter().map(|(i, a)| json!([i, a])).collect::<Vec<_>>() })).collect::<Vec<_>>(),
            "machinery": self.machinery, "rechecks": self.rechecks, "sample": self.sample, "wall": self.wall,
        })
    }

    pub fn from_json(v: &Value) -> ScenarioResult {
        let hexset = |k: &str| -> HashSet<u64> {
            v[k].as_array().map(|a| a.iter().filter_map(|x| u64::from_str_radix(x.as_str().unwrap_or("0"), 16).ok()).collect()).unwrap_or_default()
        };
        let map = |k: &str| -> BTreeMap<String, u64> {
            v[k].as_object().map(|o| o.iter().map(|(k, v)| (k.clone(), v.as_u64().unwrap_or(0))).collect()).unwrap_or_default()
        };
        ScenarioResult {
            name: v["name"].as_str().unwrap_or("").to_string(),
            family: v["family"].as_str().unwrap_or("").to_string(),
            cfg: v["cfg"].clone(),
            executions: v["executions"].as_u64().unwrap_or(0),
            per_level: v["per_level"].as_array().map(|a| a.iter().map(|x| x.as_u64().unwrap_or(0)).collect()).unwrap_or_default(),
            bound_requested: v["bound_requested"].as_u64().unwrap_or(0) as usize,
            bound_completed: v["bound_completed"].as_i64().unwrap_or(-1),
            capped: v["capped"].as_str().map(|s| s.to_string()),
            tree_exhausted: v["tree_exhausted"].as_bool().unwrap_or(false),
            n0: v["n0"].as_u64().unwrap_or(0) as u32,
            max_n: v["max_choice_points"].as_u64().unwrap_or(0) as u32,
            max_steps: v["max_steps"].as_u64().unwrap_or(0),
            states: v["states"].as_u64().unwrap_or(0),
            transitions: v["transitions"].as_u64().unwrap_or(0),
            outcomes: map("outcomes"),
            statuses: map("statuses"),
            sigs: hexset("sigs"),
            pairs: hexset("pairs"),
            sites: v["sites"].as_array().map(|a| a.iter().map(|x| x.as_u64().unwrap_or(0) as u32).collect()).unwrap_or_default(),
            threads_active_max: v["threads_active_max"].as_u64().unwrap_or(0) as u32,
            reused_max: v["reused_max"].as_u64().unwrap_or(0) as u32,
            sub_evals: v["sub_evals"].as_u64().unwrap_or(0),
            violation_count: v["violation_count"].as_u64().unwrap_or(0),
            violations: v["violations"].as_array().map(|a| a.iter().map(|x| Violation {
                scenario: x["scenario"].as_str().unwrap_or("").to_string(),
                status: x["status"].as_u64().unwrap_or(0) as u32,
                clause: x["clause"].as_str().unwrap_or("").to_string(),
                msg: x["msg"].as_str().unwrap_or("").to_string(),
                out: x["out"].as_str().unwrap_or("").to_string(),
                known: x["known"].as_bool().unwrap_or(false),
                devs: x["devs"].as_array().map(|d| d.iter().map(|p| (p[0].as_u64().unwrap_or(0) as u32, p[1].as_u64().unwrap_or(0) as u8)).collect()).unwrap_or_default(),
            }).collect()).unwrap_or_default(),
            machinery: v["machinery"].as_array().map(|a| a.iter().map(|x| x.as_str().unwrap_or("").to_string()).collect()).unwrap_or_default(),
            rechecks: v["rechecks"].as_u64().unwrap_or(0),
            sample: if v["sample"].is_null() { None } else { Some(v["sample"].clone()) },
            wall: v["wall"].as_f64().unwrap_or(0.0),
        }
    }

    /// merge the result of another shard of the same scenario
    pub fn merge(&mut self, o: ScenarioResult) {
        self.executions += o.executions;
        for (i, n) in o.per_level.iter().enumerate() {
            if self.per_level.len() <= i {
                self.per_level.push(0);
            }
            self.per_level[i] += n;
        }
        self.bound_completed = self.bound_completed.min(o.bound_completed);
        if self.capped.is_none() {
            self.capped = o.capped;
        }
        self.tree_exhausted = self.tree_exhausted && o.tree_exhausted;
        self.n0 = self.n0.max(o.n0);
        self.max_n = self.max_n.max(o.max_n);
        self.max_steps = self.max_steps.max(o.max_steps);
        self.states += o.states;
        self.transitions += o.transitions;
        for (k, v) in o.outcomes {
            *self.outcomes.entry(k).or_insert(0) += v;
        }
        for (k, v) in o.statuses {
            *self.statuses.entry(k).or_insert(0) += v;
        }
        self.sigs.extend(o.sigs);
        self.pairs.extend(o.pairs);
        self.sites.extend(o.sites);
        self.threads_active_max = self.threads_active_max.max(o.threads_active_max);
        self.reused_max = self.reused_max.max(o.reused_max);
        self.sub_evals += o.sub_evals;
        self.violation_count += o.violation_count;
        for v in o.violations {
            if self.violations.iter().filter(|x| x.known == v.known).count() < 12 {
                self.violations.push(v);
            }
        }
        self.machinery.extend(o.machinery);
        self.rechecks += o.rechecks;
        if self.sample.is_none() {
            self.sample = o.sample;
        }
        self.wall = self.wall.max(o.wall);
    }
}

pub struct Opts {
    pub par: usize,
    pub seed: u64,
    pub shard: (usize, usize),
    pub rechecks: usize,
}

fn is_machinery(status: u32) -> bool {
    matches!(status, ST_NONDET | ST_TIMEOUT | ST_TOOMANY | ST_ENV)
}

pub fn explore(sc: &Scenario, opts: &Opts) -> ScenarioResult {
    let t0 = Instant::now();
    let mut res = ScenarioResult {
        name: sc.name.clone(),
        family: sc.family.to_string(),
        cfg: sc.cfg_json(),
        bound_requested: sc.bound,
        bound_completed: -1,
        ..Default::default()
    };
    let mut slots: Vec<Slot> = (0..opts.par.max(1)).map(|_| new_slot()).collect();
    let mut level: Vec<Sched> = vec![Sched {
        devs: vec![],
        expect_fp: 0,
    }];
    let mut rng = opts.seed.wrapping_mul(0x9E3779B97F4A7C15) ^ fnv64(&sc.name);
    let mut reservoir: Vec<(Sched, String)> = Vec::new();
    let mut seen_exec = 0u64;
    let (shard_k, shard_n) = opts.shard;
    let mut capped: Option<String> = None;

    'levels: for d in 0..=sc.bound_max.max(sc.bound) {
        if d > sc.bound && res.executions + level.len() as u64 > sc.budget {
            break;
        }
        let mut next: Vec<Sched> = vec![];
        let n_level = level.len() as u64;
        let mut it = level.into_iter();
        let mut inflight = 0usize;
        let mut launched = 0u64;
        loop {
            // launch
            if capped.is_none() {
                for s in slots.iter_mut() {
                    if s.pid == 0 {
                        if sc.max_execs > 0 && res.executions + inflight as u64 >= sc.max_execs {
                            capped = Some(format!("execution cap {} reached in level {}", sc.max_execs, d));
                            break;
                        }
                        let wall_cap = if sc.max_wall > 0.0 { sc.max_wall } else { default_wall_cap() };
                        if t0.elapsed().as_secs_f64() > wall_cap {
                            capped = Some(format!("wall cap {}s reached in level {}", wall_cap, d));
                            break;
                        }
                        // a scenario that has produced its three replay files per clause has said what it has to say
                        // (violations that match a listed known finding do not count: the search for others goes on)
                        let unlisted = res.violations.iter().filter(|v| !v.known).count();
                        if unlisted >= 3 && t0.elapsed().as_secs_f64() > 20.0 {
                            capped = Some(format!("stopped in level {}: {} violations recorded", d, unlisted));
                            break;
                        }
                        if let Some(p) = it.next() {
                            launch(sc, s, p);
                            inflight += 1;
                            launched += 1;
                        }
                    }
                }
            }
            if inflight == 0 {
                break;
            }
            // reap one
            let mut st = 0;
            let pid = unsafe { libc::wait(&mut st) };
            let slot = match slots.iter_mut().find(|s| s.pid == pid) {
                Some(s) => s,
                None => continue,
            };
            slot.pid = 0;
            inflight -= 1;
            let sum = read_summary(slot, st);
            if sum.status == ST_ENV && slot.env_retries < 30 {
                // resource exhaustion of the machine (e.g. no ephemeral port left under load): same schedule again, later
                std::thread::sleep(std::time::Duration::from_millis(200 + 100 * slot.env_retries as u64));
                let n = slot.env_retries + 1;
                let sched = slot.sched.clone();
                launch(sc, slot, sched);
                slot.env_retries = n;
                inflight += 1;
                continue;
            }
            let sh = unsafe { &*slot.shared };
            let n = (sh.n_choices as usize).min(MAX_CHOICES);
            let count_it = !(d == 0 && shard_k != 0);
            if count_it {
                res.executions += 1;
                seen_exec += 1;
                if d == 0 {
                    res.n0 = sum.n_choices;
                }
                res.max_n = res.max_n.max(sum.n_choices);
                res.max_steps = res.max_steps.max(sum.steps);
                res.transitions += sum.steps;
                let start = slot.sched.devs.last().map(|x| x.0 as usize + 1).unwrap_or(0);
                res.states += (n.saturating_sub(start)) as u64 + if d == 0 { 1 } else { 0 };
                *res.statuses.entry(status_name(sum.status).to_string()).or_insert(0) += 1;
                res.sigs.insert(sum.sig);
                res.threads_active_max = res.threads_active_max.max(sum.threads_active);
                res.reused_max = res.reused_max.max(sum.reused);
                res.sub_evals += sum.sub_evals;
                for p in &sh.pairs[..(sh.n_pairs as usize).min(MAX_PAIRS)] {
                    res.pairs.insert(*p);
                }
                for s in &sh.sites[..(sh.n_sites as usize).min(MAX_SITES)] {
                    res.sites.insert(*s);
                }
                if sum.status == ST_OK {
                    *res.outcomes.entry(sum.out.clone()).or_insert(0) += 1;
                    if res.sample.is_none() || (d > 0 && res.sample.as_ref().map(|s| s["deviations"].as_array().map(|a| a.is_empty()).unwrap_or(true)).unwrap_or(false)) {
                        res.sample = Some(json!({
                            "scenario": sc.name,
                            "deviations": slot.sched.devs.iter().map(|(i, a)| json!([i, a])).collect::<Vec<_>>(),
                            "choice_points": sum.n_choices, "steps": sum.steps, "virtual_end_ns": sum.now,
                            "observation": sum.out,
                        }));
                    }
                }
                if is_machinery(sum.status) {
                    res.machinery.push(format!("{} devs={:?}: {} {}", sc.name, slot.sched.devs, sum.clause, sum.msg.lines().next().unwrap_or("")));
                } else if sum.status != ST_OK {
                    let hang = matches!(sum.status, ST_DEADLOCK | ST_STALL);
                    if !(hang && sc.hang_ok) {
                        res.violation_count += 1;
                        let mut v = Violation {
                            scenario: sc.name.clone(),
                            status: sum.status,
                            clause: sum.clause.clone(),
                            msg: sum.msg.clone(),
                            devs: slot.sched.devs.clone(),
                            out: sum.out.clone(),
                            known: false,
                        };
                        v.known = known_list().iter().any(|k| crate::report::matches_known(k, sc.prop, &v));
                        let dup = res.violations.iter().filter(|x| x.clause == v.clause && x.known == v.known).count();
                        if dup < 3 && res.violations.iter().filter(|x| x.known == v.known).count() < 12 {
                            res.violations.push(v);
                        }
                    }
                }
                // reservoir for the determinism self check
                if opts.rechecks > 0 {
                    if reservoir.len() < opts.rechecks {
                        reservoir.push((slot.sched.clone(), sum.digest()));
                    } else {
                        rng = rng.wrapping_mul(6364136223846793005).wrapping_add(1442695040888963407);
                        let j = (rng >> 33) % seen_exec;
                        if (j as usize) < opts.rechecks {
                            reservoir[j as usize] = (slot.sched.clone(), sum.digest());
                        }
                    }
                }
            }
            // children: one more deviation at a later position
            if slot.sched.devs.len() < sc.bound_max.max(sc.bound) && !is_machinery(sum.status) {
                let start = slot.sched.devs.last().map(|x| x.0 as usize + 1).unwrap_or(0);
                let mut ord = 0usize;
                for i in start..n {
                    for alt in 1..sh.alts[i] {
                        ord += 1;
                        if d == 0 && shard_n > 1 && ord % shard_n != shard_k {
                            continue;
                        }
                        let mut devs = slot.sched.devs.clone();
                        devs.push((i as u32, alt));
                        next.push(Sched {
                            devs,
                            expect_fp: sh.fp[i],
                        });
                    }
                }
            }
        }
        if res.per_level.len() <= d {
            res.per_level.push(0);
        }
        let _ = n_level;
        res.per_level[d] = if d == 0 && shard_k != 0 { 0 } else { launched };
        if capped.is_some() {
            break 'levels;
        }
        res.bound_completed = d as i64;
        level = next;
        if level.is_empty() {
            if d < sc.bound_max.max(sc.bound) {
                // no execution of this level has a further alternative: the whole schedule tree is exhausted
                res.bound_completed = (sc.bound_max.max(sc.bound)) as i64;
                res.tree_exhausted = true;
            }
            break;
        }
    }
    res.capped = capped;

    // determinism self check: re-execute sampled schedules and compare everything observable
    for (sched, digest) in reservoir {
        let (sum, _, _) = run_once(sc, &sched);
        res.rechecks += 1;
        if sum.digest() != digest {
            res.machinery.push(format!(
                "{}: re-execution of devs={:?} differs: first [{}] second [{}]",
                sc.name,
                sched.devs,
                digest,
                sum.digest()
            ));
        }
    }
    for s in slots {
        unsafe { libc::munmap(s.shared as *mut _, std::mem::size_of::<Shared>()) };
    }
    res.wall = t0.elapsed().as_secs_f64();
    res
}

pub fn fnv64(s: &str) -> u64 {
    let mut h = 0xcbf29ce484222325u64;
    for b in s.as_bytes() {
        h ^= *b as u64;
        h = h.wrapping_mul(0x100000001b3);
    }
    h
}
