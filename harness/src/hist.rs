//! call/return histories and a brute force linearizability check against a FIFO queue
use std::collections::{HashSet, VecDeque};
use std::sync::atomic::{AtomicU64, Ordering};
use std::sync::Mutex;

static SEQ: AtomicU64 = AtomicU64::new(1);

/// global event sequence number; one thread runs at a time, so this is the real order of events
pub fn seq() -> u64 {
    SEQ.fetch_add(1, Ordering::SeqCst)
}

#[derive(Clone, Debug, PartialEq)]
pub enum QOp {
    Push(u32),
    Pop(Option<u32>),
    Bulk(Vec<u32>),
    Peek(Option<u32>),
    Len(usize),
    Empty(bool),
    /// push that reports whether the list was empty
    PushH(u32, bool),
    /// conditional pop: (predicate accepted the head, result)
    PopIf(bool, Option<u32>),
    /// remove through a handle
    Remove(u32, Option<u32>),
}

#[derive(Clone, Debug)]
pub struct Rec {
    pub thread: usize,
    pub call: u64,
    pub ret: u64,
    pub op: QOp,
}

pub struct Hist {
    recs: Mutex<Vec<Rec>>,
}

impl Hist {
    pub const fn new() -> Hist {
        Hist { recs: Mutex::new(Vec::new()) }
    }
    /// run `f`, record it with its call and return stamps
    pub fn run<F: FnOnce() -> QOp>(&self, thread: usize, f: F) -> QOp {
        let call = seq();
        let op = f();
        let ret = seq();
        // no hook point while the std lock is held
        self.recs.lock().unwrap_or_else(|e| e.into_inner()).push(Rec { thread, call, ret, op: op.clone() });
        op
    }
    pub fn take(&self) -> Vec<Rec> {
        let mut v = self.recs.lock().unwrap_or_else(|e| e.into_inner()).clone();
        v.sort_by_key(|r| r.call);
        v
    }
}

/// is the history linearizable to a FIFO queue that initially holds `init`?
/// bulk pops may return any non-empty prefix; returns a witness order on success
pub fn linearizable_fifo(recs: &[Rec], init: &[u32]) -> Option<Vec<usize>> {
    let n = recs.len();
    assert!(n <= 24);
    // precedence masks
    let mut pred = vec![0u32; n];
    for i in 0..n {
        for j in 0..n {
            if i != j && recs[j].ret < recs[i].call {
                pred[i] |= 1 << j;
            }
        }
    }
    let mut seen: HashSet<(u32, Vec<u32>)> = HashSet::new();
    let mut order = Vec::new();
    let q: VecDeque<u32> = init.iter().cloned().collect();
    if dfs(recs, &pred, 0, q, &mut seen, &mut order) {
        Some(order)
    } else {
        None
    }
}

fn dfs(recs: &[Rec], pred: &[u32], done: u32, q: VecDeque<u32>, seen: &mut HashSet<(u32, Vec<u32>)>, order: &mut Vec<usize>) -> bool {
    let n = recs.len();
    if done.count_ones() as usize == n {
        return true;
    }
    let key = (done, q.iter().cloned().collect::<Vec<u32>>());
    if !seen.insert(key) {
        return false;
    }
    for i in 0..n {
        if done & (1 << i) != 0 || pred[i] & !done != 0 {
            continue;
        }
        let mut q2 = q.clone();
        let ok = match &recs[i].op {
            QOp::Push(v) => {
                q2.push_back(*v);
                true
            }
            QOp::Pop(None) => q2.is_empty(),
            QOp::Pop(Some(v)) => q2.pop_front() == Some(*v),
            QOp::Bulk(vs) => {
                if vs.is_empty() {
                    q2.is_empty()
                } else {
                    vs.iter().all(|v| q2.pop_front() == Some(*v))
                }
            }
            QOp::Peek(None) => q2.is_empty(),
            QOp::Peek(Some(v)) => q2.front() == Some(v),
            QOp::Len(l) => q2.len() == *l,
            QOp::Empty(b) => q2.is_empty() == *b,
            QOp::PushH(v, h) => {
                let was_empty = q2.is_empty();
                q2.push_back(*v);
                was_empty == *h
            }
            QOp::PopIf(accept, r) => match (accept, r) {
                (true, Some(v)) => q2.pop_front() == Some(*v),
                (true, None) => q2.is_empty(),
                (false, None) => true,
                (false, Some(_)) => false,
            },
            QOp::Remove(id, r) => match r {
                Some(v) => {
                    if v != id {
                        false
                    } else if let Some(p) = q2.iter().position(|x| x == id) {
                        q2.remove(p);
                        true
                    } else {
                        false
                    }
                }
                // declined or already consumed: no effect
                None => true,
            },
        };
        if ok {
            order.push(i);
            if dfs(recs, pred, done | (1 << i), q2, seen, order) {
                return true;
            }
            order.pop();
        }
    }
    false
}

pub fn fmt_hist(recs: &[Rec]) -> String {
    let mut s = String::new();
    for r in recs {
        s.push_str(&format!("t{}[{}..{}]{:?} ", r.thread, r.call, r.ret, r.op));
    }
    s
}
