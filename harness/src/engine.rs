//! `detsched`, child side: a baton passing scheduler over real OS threads that
//! implements the hook ABI of `may::verif` (DESIGN §3).
//!
//! Exactly one registered thread runs between two hook points.  Every point at
//! which more than one alternative exists is a *choice point*; the alternative
//! taken is dictated by the deviation list handed down by the explorer
//! (index 0 = default everywhere else).
use may::verif::{Hooks, Op};
use std::cell::Cell;
use std::collections::{BTreeMap, HashMap};
use std::panic::Location;
use std::sync::atomic::{AtomicBool, Ordering};
use std::sync::{Arc, Condvar, Mutex, MutexGuard};
use std::thread::ThreadId;

pub const MAX_CHOICES: usize = 24_000;
pub const MAX_PAIRS: usize = 384;
pub const MAX_SITES: usize = 768;
pub const MSG_CAP: usize = 24 * 1024;
pub const OUT_CAP: usize = 2048;
pub const RING_CAP: usize = 3072;

pub const ST_NONE: u32 = 0;
pub const ST_OK: u32 = 1;
pub const ST_DEADLOCK: u32 = 2;
pub const ST_STALL: u32 = 3;
pub const ST_LIVELOCK: u32 = 4;
pub const ST_PANIC: u32 = 5;
pub const ST_FAIL: u32 = 6;
pub const ST_NONDET: u32 = 7;
pub const ST_RESIDENCY: u32 = 8;
pub const ST_TOOMANY: u32 = 9;
/// the operating system ran out of a resource (ephemeral ports, descriptors, memory): says nothing about the code under
/// test; the explorer runs the schedule again after a pause
pub const ST_ENV: u32 = 10;

/// messages of OS errors that mean resource exhaustion on this machine, not a behaviour of the code under test
pub fn is_env_exhaustion(msg: &str) -> bool {
    ["Cannot assign requested address", "Too many open files", "No buffer space available", "Cannot allocate memory", "Address already in use"].iter().any(|m| msg.contains(m))
}
pub const ST_CRASH: u32 = 98;
pub const ST_TIMEOUT: u32 = 99;

pub fn status_name(s: u32) -> &'static str {
    match s {
        ST_OK => "ok",
        ST_DEADLOCK => "deadlock",
        ST_STALL => "stall",
        ST_LIVELOCK => "livelock",
        ST_PANIC => "unexpected_panic",
        ST_FAIL => "oracle",
        ST_NONDET => "nondeterminism",
        ST_RESIDENCY => "residency",
        ST_TOOMANY => "too_many_choice_points",
        ST_ENV => "environment",
        ST_CRASH => "crash",
        ST_TIMEOUT => "child_timeout",
        _ => "none",
    }
}

/// child -> explorer, lives in a MAP_SHARED page set created before the fork
#[repr(C)]
pub struct Shared {
    pub status: u32,
    pub n_choices: u32,
    pub steps: u64,
    pub now: u64,
    pub sig_hash: u64,
    pub threads_active: u32,
    pub n_pairs: u32,
    pub n_sites: u32,
    pub accesses: u32,
    pub reused: u32,
    pub msg_len: u32,
    pub out_len: u32,
    pub clause_len: u32,
    pub sub_evals: u64,
    pub clause: [u8; 128],
    pub pairs: [u64; MAX_PAIRS],
    pub sites: [u32; MAX_SITES],
    pub alts: [u8; MAX_CHOICES],
    pub chosen: [u8; MAX_CHOICES],
    pub fp: [u64; MAX_CHOICES],
    pub out: [u8; OUT_CAP],
    pub msg: [u8; MSG_CAP],
    /// labels and last sites, written as they happen so that a crashing child leaves a witness
    pub ring_len: u32,
    pub ring: [u8; RING_CAP],
}

thread_local! { static TID: Cell<usize> = const { Cell::new(usize::MAX) }; }

#[inline]
fn me() -> usize {
    TID.with(|t| t.get())
}

struct Parker {
    flag: Mutex<bool>,
    cv: Condvar,
}

impl Parker {
    fn new() -> Arc<Parker> {
        Arc::new(Parker {
            flag: Mutex::new(false),
            cv: Condvar::new(),
        })
    }
}

#[derive(Clone, Debug)]
enum Cond {
    Park(Option<u64>),
    Lock(usize),
    Cv {
        cv: usize,
        deadline: Option<u64>,
        notified: bool,
        seq: u64,
    },
    Epoll(i32, Option<u64>),
    Sleep(u64),
    Join(usize),
    JoinAll,
    Flag(usize),
    /// until a hook label with this name has been emitted by some thread
    Label(&'static str),
    Quiesce,
}

struct Th {
    name: String,
    parker: Arc<Parker>,
    blocked: Option<Cond>,
    finished: bool,
    harness: bool,
    token: bool,
    yielded: bool,
    /// the thread is descheduled inside a busy-wait hint (it waits for another thread's step)
    at_spin: bool,
    /// value of State::writes when it last entered a busy-wait hint
    spin_writes: u64,
    timed_out: bool,
    std_id: Option<ThreadId>,
    bracket: u32,
    pending: u32,
    active: bool,
    /// store-buffer model: this thread's stores that are not yet visible to the others, oldest first
    sbuf: Vec<SbEntry>,
}

#[derive(Clone, Copy)]
struct SbEntry {
    addr: usize,
    size: u8,
    bits: u64,
    age: u32,
}

/// a deferred store becomes visible at the latest when its thread reaches its second scheduling point after the store:
/// exactly one following load may overtake it (the store-buffer litmus "store x; load y"). Uninstrumented code between
/// hook points (std Arc counters, system calls) contains locked instructions that would drain a real store buffer, so
/// nothing longer-lived than this is modelled.
const SB_MAX_AGE: u32 = 1;
/// deferred stores per thread
const SB_CAP: usize = 1;

/// see Engine::break_at
#[derive(Clone, Copy)]
pub struct Breakpoint {
    hit: &'static AtomicBool,
    go: &'static AtomicBool,
}

#[derive(Clone)]
pub struct EngineCfg {
    /// one step per public may_queue operation
    pub coarse: bool,
    /// offer "advance the clock" as a costed alternative
    pub t2: bool,
    /// step horizon
    pub horizon: u64,
    /// virtual time horizon in ns, relative to the start of the window
    pub vt_horizon: u64,
    /// default policy: false = round robin ascending, true = descending
    pub desc: bool,
    /// consecutive steps after which the default choice rotates
    pub fair: u64,
    /// a store / read-modify-write is followed by a second scheduling point
    pub post_points: bool,
    /// offer a spurious return of `std::thread::park` (legal for std) as a costed alternative
    pub spurious: bool,
    /// store-buffer model (x86-TSO restricted to the shim atomics): a store that is not SeqCst may be held back
    /// (costed alternative) while the thread goes on, until its next read-modify-write, SeqCst store or fence, cell
    /// write, lock / blocking operation, or SB_MAX_AGE further points; the thread's own loads see the held value
    pub tso: bool,
    /// only stores issued from these source files (path suffixes) may be held back
    pub tso_files: &'static [&'static str],
}

impl Default for EngineCfg {
    fn default() -> Self {
        EngineCfg {
            coarse: true,
            t2: false,
            horizon: 20_000,
            vt_horizon: 1_000_000_000,
            desc: false,
            fair: 50,
            post_points: false,
            spurious: false,
            tso: false,
            tso_files: &[],
        }
    }
}

struct Access {
    addr: usize,
    tid: u8,
    write: bool,
    site: u32,
}

pub struct State {
    th: Vec<Th>,
    now: u64,
    t0: u64,
    locks: BTreeMap<usize, usize>,
    branching: bool,
    cfg: EngineCfg,
    devs: Vec<(u32, u8)>,
    dev_pos: usize,
    expect_fp: u64,
    nchoice: usize,
    steps: u64,
    steps_at_begin: u64,
    run_len: u64,
    cvseq: u64,
    fp_roll: u64,
    out: String,
    log: Vec<(u8, u32, u8)>,
    labels: Vec<(usize, &'static str, usize)>,
    resident: BTreeMap<usize, usize>,
    accesses: Vec<Access>,
    cells: Vec<Access>,
    site_ids: HashMap<usize, u32>,
    site_names: HashMap<u32, (&'static str, u32)>,
    panics: Vec<String>,
    t2_used: bool,
    tso_used: bool,
    /// writes (stores, read-modify-writes, plain and cell writes) executed so far
    writes: u64,
    dead_objs: Vec<(&'static str, usize)>,
    obj_size: Vec<(usize, usize)>,
    /// armed breakpoints: the next thread that emits the label blocks on the flag
    breakpoints: Vec<(&'static str, usize, usize)>,
    spurious_used: bool,
}

pub struct Engine {
    st: Mutex<State>,
    shared: *mut Shared,
}
unsafe impl Sync for Engine {}
unsafe impl Send for Engine {}

fn fnv(mut h: u64, v: u64) -> u64 {
    for i in 0..8 {
        h ^= (v >> (i * 8)) & 0xff;
        h = h.wrapping_mul(0x100000001b3);
    }
    h
}

fn fnv_str(s: &str) -> u64 {
    let mut h = 0xcbf29ce484222325u64;
    for b in s.as_bytes() {
        h ^= *b as u64;
        h = h.wrapping_mul(0x100000001b3);
    }
    h
}

impl Engine {
    /// create and install the engine, the caller becomes thread 0
    pub fn new(shared: *mut Shared, devs: Vec<(u32, u8)>, expect_fp: u64, cfg: EngineCfg) -> &'static Engine {
        let main = Th {
            name: "main".into(),
            parker: Parker::new(),
            blocked: None,
            finished: false,
            harness: true,
            token: false,
            yielded: false,
            at_spin: false,
            spin_writes: 0,
            timed_out: false,
            std_id: Some(std::thread::current().id()),
            bracket: 0,
            pending: 0,
            active: false,
            sbuf: Vec::new(),
        };
        TID.with(|t| t.set(0));
        let e = Box::leak(Box::new(Engine {
            st: Mutex::new(State {
                th: vec![main],
                now: 1_000_000_000,
                t0: 1_000_000_000,
                locks: BTreeMap::new(),
                branching: false,
                cfg,
                devs,
                dev_pos: 0,
                expect_fp,
                nchoice: 0,
                steps: 0,
                steps_at_begin: 0,
                run_len: 0,
                cvseq: 0,
                fp_roll: 0xcbf29ce484222325,
                out: String::new(),
                log: Vec::new(),
                labels: Vec::new(),
                resident: BTreeMap::new(),
                accesses: Vec::new(),
                cells: Vec::new(),
                site_ids: HashMap::new(),
                site_names: HashMap::new(),
                panics: Vec::new(),
                t2_used: false,
                tso_used: false,
                writes: 0,
                dead_objs: Vec::new(),
                obj_size: Vec::new(),
                breakpoints: Vec::new(),
                spurious_used: false,
            }),
            shared,
        }));
        unsafe { may::verif::install(e) };
        let ep: &'static Engine = e;
        std::panic::set_hook(Box::new(move |info| {
            // record only: coroutine panics are caught by the runtime, verdicts come from the wrappers
            let msg = if let Some(s) = info.payload().downcast_ref::<&str>() {
                s.to_string()
            } else if let Some(s) = info.payload().downcast_ref::<String>() {
                s.clone()
            } else {
                "<non-string payload>".to_string()
            };
            let loc = info.location().map(|l| format!("{}:{}", l.file(), l.line())).unwrap_or_default();
            if std::env::var_os("MAYVERIF_VERBOSE").is_some() {
                eprintln!("[panic] t{} {} at {}\n{}", me() as isize, msg, loc, std::backtrace::Backtrace::force_capture());
            }
            if let Ok(mut st) = ep.st.try_lock() {
                if st.panics.len() < 16 {
                    let t = me();
                    st.panics.push(format!("t{} {} at {}", t as isize, msg, loc));
                }
            }
        }));
        e
    }

    fn lock(&self) -> MutexGuard<'_, State> {
        match self.st.lock() {
            Ok(g) => g,
            Err(p) => p.into_inner(),
        }
    }

    // ---------------------------------------------------------------- scenario API

    /// start of the explored window
    pub fn begin(&self) {
        let mut st = self.lock();
        st.branching = true;
        st.t0 = st.now;
        st.run_len = 0;
        // the step horizon counts from the start of the window (warm-up may be long)
        st.steps_at_begin = st.steps;
        for t in st.th.iter_mut() {
            t.active = false;
        }
    }

    pub fn set_branching(&self, b: bool) {
        self.lock().branching = b;
    }

    pub fn now(&self) -> u64 {
        self.lock().now
    }

    /// logical time stamp (number of scheduling steps so far)
    pub fn stamp(&self) -> u64 {
        self.lock().steps
    }

    /// append to the observation vector of this execution
    pub fn note(&self, s: &str) {
        let mut st = self.lock();
        if st.out.len() < OUT_CAP {
            if !st.out.is_empty() {
                st.out.push(' ');
            }
            st.out.push_str(s);
        }
    }

    /// the execution evaluated `n` cases internally (sequential sweeps)
    pub fn count(&self, n: u64) {
        unsafe { (*self.shared).sub_evals += n };
    }

    pub fn labels(&self) -> Vec<(usize, &'static str, usize)> {
        self.lock().labels.clone()
    }

    pub fn t2_used(&self) -> bool {
        self.lock().t2_used
    }
    pub fn tso_used(&self) -> bool {
        self.lock().tso_used
    }

    /// number of allocations served from the recycle lists so far
    pub fn panics(&self) -> Vec<String> {
        self.lock().panics.clone()
    }

    /// spawn a harness thread that is scheduled by the engine
    pub fn spawn<F: FnOnce() + Send + 'static>(&'static self, name: &str, f: F) -> usize {
        let token = {
            let mut st = self.lock();
            st.th.push(Th {
                name: name.to_string(),
                parker: Parker::new(),
                blocked: None,
                finished: false,
                harness: true,
                token: false,
                yielded: false,
                at_spin: false,
                spin_writes: 0,
                timed_out: false,
                std_id: None,
                bracket: 0,
                pending: 0,
                active: false,
                sbuf: Vec::new(),
            });
            st.th.len() - 1
        };
        let e: &'static Engine = self;
        std::thread::Builder::new()
            .stack_size(512 * 1024)
            .spawn(move || {
                e.thread_start(token);
                let r = std::panic::catch_unwind(std::panic::AssertUnwindSafe(f));
                e.thread_exit(r.is_err());
                // the OS thread stays around: its thread-local destructors (e.g. may's per-thread proxy
                // coroutine sender) would otherwise run hooked code outside the engine's control
                loop {
                    std::thread::park();
                }
            })
            .expect("spawn harness thread");
        // creating a thread is a scheduling point
        let me = me();
        let st = self.lock();
        self.resched(st, me);
        token
    }

    pub fn join(&self, tid: usize) {
        let me = me();
        let mut st = self.lock();
        st.th[me].blocked = Some(Cond::Join(tid));
        self.resched(st, me);
    }

    /// wait until every harness thread except the caller has finished
    pub fn join_all(&self) {
        let me = me();
        let mut st = self.lock();
        st.th[me].blocked = Some(Cond::JoinAll);
        self.resched(st, me);
    }

    /// block (visibly to the engine) until the flag is true
    pub fn wait_flag(&self, f: &'static AtomicBool) {
        let me = me();
        let mut st = self.lock();
        st.th[me].blocked = Some(Cond::Flag(f as *const _ as usize));
        self.resched(st, me);
    }

    /// block a harness thread until some thread has passed the hook label `name` (time shaping: puts the harness
    /// thread's next action right behind an internal step of the code under test)
    pub fn wait_label(&self, name: &'static str) {
        let me = me();
        let mut st = self.lock();
        st.th[me].blocked = Some(Cond::Label(name));
        self.resched(st, me);
    }

    /// breakpoint (time shaping): the next thread of the code under test that passes the hook label `name` is held there
    /// until the returned flag is set with `release`. The harness learns that it got there with `wait_label(name)`.
    pub fn break_at(&self, name: &'static str) -> Breakpoint {
        let hit: &'static AtomicBool = Box::leak(Box::new(AtomicBool::new(false)));
        let go: &'static AtomicBool = Box::leak(Box::new(AtomicBool::new(false)));
        self.lock().breakpoints.push((name, go as *const _ as usize, hit as *const _ as usize));
        Breakpoint { hit, go }
    }

    /// block until a thread is held at the breakpoint
    pub fn wait_hit(&self, b: Breakpoint) {
        self.wait_flag(b.hit);
    }

    pub fn release(&self, b: Breakpoint) {
        b.go.store(true, Ordering::SeqCst);
        self.sched_point();
    }

    /// an explicit scheduling point for harness code
    pub fn sched_point(&self) {
        let me = me();
        if me == usize::MAX {
            return;
        }
        let st = self.lock();
        self.resched(st, me);
    }

    /// block until nothing else can run and no timer inside the horizon is pending
    pub fn quiesce(&self) {
        let me = me();
        let mut st = self.lock();
        st.th[me].blocked = Some(Cond::Quiesce);
        self.resched(st, me);
    }

    /// virtual sleep of a harness thread
    pub fn vsleep(&self, ns: u64) {
        Hooks::sleep(self, ns);
    }

    pub fn ok(&self) -> ! {
        let st = self.lock();
        self.finish_locked(st, ST_OK, "", "")
    }

    /// report an oracle failure: `clause` identifies the violated clause, `msg` the details
    pub fn fail(&self, clause: &str, msg: &str) -> ! {
        let st = self.lock();
        self.finish_locked(st, ST_FAIL, clause, msg)
    }

    pub fn finish(&self, status: u32, clause: &str, msg: &str) -> ! {
        let st = self.lock();
        self.finish_locked(st, status, clause, msg)
    }

    // ---------------------------------------------------------------- internals

    fn site_id(st: &mut State, loc: &'static Location<'static>) -> u32 {
        let key = loc as *const _ as usize;
        if let Some(id) = st.site_ids.get(&key) {
            return *id;
        }
        let f = loc.file();
        // strip everything before the crate relative part so that ids survive a moved checkout
        let rel = f.rsplit_once("/may_queue/").map(|x| x.1).or_else(|| f.rsplit_once("/src/").map(|x| x.1)).unwrap_or(f);
        let h = fnv(fnv(fnv_str(rel), loc.line() as u64), loc.column() as u64);
        let id = (h ^ (h >> 32)) as u32 | 1;
        st.site_ids.insert(key, id);
        st.site_names.insert(id, (f, loc.line()));
        id
    }

    fn site_str(st: &State, id: u32) -> String {
        match st.site_names.get(&id) {
            Some((f, l)) => {
                let rel = f.rsplit_once("/repo/").map(|x| x.1).unwrap_or(f);
                format!("{}:{}", rel, l)
            }
            None => String::new(),
        }
    }

    fn finish_locked(&self, st: MutexGuard<'_, State>, status: u32, clause: &str, msg: &str) -> ! {
        let (status, clause) = if matches!(status, ST_PANIC | ST_FAIL) && is_env_exhaustion(msg) { (ST_ENV, "environment") } else { (status, clause) };
        unsafe {
            let s = &mut *self.shared;
            s.n_choices = st.nchoice as u32;
            s.steps = st.steps;
            s.now = st.now;
            s.reused = crate::alloc::REUSED.load(Ordering::Relaxed) as u32;
            s.threads_active = st.th.iter().filter(|t| t.active).count() as u32;
            // conflict signature
            let (sig, pairs) = Self::conflicts(&st);
            s.sig_hash = sig;
            s.accesses = st.accesses.len() as u32;
            let n = pairs.len().min(MAX_PAIRS);
            s.pairs[..n].copy_from_slice(&pairs[..n]);
            s.n_pairs = n as u32;
            let mut sites: Vec<u32> = st.site_names.keys().cloned().collect();
            sites.sort();
            let n = sites.len().min(MAX_SITES);
            s.sites[..n].copy_from_slice(&sites[..n]);
            s.n_sites = n as u32;
            let ob = st.out.as_bytes();
            let n = ob.len().min(OUT_CAP);
            s.out[..n].copy_from_slice(&ob[..n]);
            s.out_len = n as u32;
            let cb = clause.as_bytes();
            let n = cb.len().min(128);
            s.clause[..n].copy_from_slice(&cb[..n]);
            s.clause_len = n as u32;
            let mut m = String::from(msg);
            if status != ST_OK {
                m.push_str(&format!("\nvirtual now={} ns (window start {}), steps={}, choice points={}\n", st.now, st.t0, st.steps, st.nchoice));
                m.push_str("threads:\n");
                for (i, t) in st.th.iter().enumerate() {
                    m.push_str(&format!(
                        "  t{} {} finished={} blocked={:?} token={} at {}\n",
                        i,
                        t.name,
                        t.finished,
                        t.blocked,
                        t.token,
                        Self::site_str(&st, t.pending)
                    ));
                }
                if !st.panics.is_empty() {
                    m.push_str("panics seen:\n");
                    for p in st.panics.iter() {
                        m.push_str(&format!("  {}\n", p));
                    }
                }
                m.push_str("labels: ");
                for (t, l, a) in st.labels.iter().rev().take(48).rev() {
                    if *a != 0 {
                        m.push_str(&format!("{}@t{}({:x}) ", l, t, a));
                    } else {
                        m.push_str(&format!("{}@t{} ", l, t));
                    }
                }
                m.push_str("\ntrace tail:\n");
                let tail: usize = std::env::var("MAYVERIF_TRACE").ok().and_then(|s| s.parse().ok()).unwrap_or(80);
                for (t, site, op) in st.log.iter().rev().take(tail).rev() {
                    m.push_str(&format!("  t{} {} {}\n", t, op_name(*op), Self::site_str(&st, *site)));
                }
            }
            if let Ok(f) = std::env::var("MAYVERIF_TRACE_FILE") {
                // debugging aid: the complete step log of this execution
                let mut out = String::new();
                for (t, site, op) in st.log.iter() {
                    out.push_str(&format!("t{} {} {}\n", t, op_name(*op), Self::site_str(&st, *site)));
                }
                let _ = std::fs::write(f, out);
            }
            let b = m.as_bytes();
            let n = b.len().min(MSG_CAP);
            s.msg[..n].copy_from_slice(&b[..n]);
            s.msg_len = n as u32;
            std::sync::atomic::fence(Ordering::SeqCst);
            s.status = status;
            libc::_exit(0);
        }
    }

    /// conflict signature: accesses to addresses touched by >= 2 threads with >= 1 write
    fn conflicts(st: &State) -> (u64, Vec<u64>) {
        let mut per: HashMap<usize, (u64, bool)> = HashMap::new();
        for a in st.accesses.iter() {
            let e = per.entry(a.addr).or_insert((0, false));
            e.0 |= 1u64 << (a.tid & 63);
            e.1 |= a.write;
        }
        let mut h = 0xcbf29ce484222325u64;
        let mut last: HashMap<usize, (u8, u32, bool)> = HashMap::new();
        let mut pairs: Vec<u64> = Vec::new();
        for a in st.accesses.iter() {
            let (mask, w) = per[&a.addr];
            if !w || mask.count_ones() < 2 {
                continue;
            }
            h = fnv(h, ((a.site as u64) << 8) | a.tid as u64);
            if let Some((lt, ls, lw)) = last.get(&a.addr) {
                if *lt != a.tid && (*lw || a.write) {
                    let p = ((*ls as u64) << 32) | a.site as u64;
                    if !pairs.contains(&p) && pairs.len() < MAX_PAIRS {
                        pairs.push(p);
                    }
                }
            }
            last.insert(a.addr, (a.tid, a.site, a.write));
        }
        (h, pairs)
    }

    fn is_enabled(st: &State, t: usize) -> bool {
        let th = &st.th[t];
        if th.finished {
            return false;
        }
        match &th.blocked {
            None => true,
            Some(Cond::Park(d)) => th.token || d.map(|d| st.now >= d).unwrap_or(false),
            Some(Cond::Lock(a)) => !st.locks.contains_key(a),
            Some(Cond::Cv { deadline, notified, .. }) => *notified || deadline.map(|d| st.now >= d).unwrap_or(false),
            Some(Cond::Epoll(fd, d)) => {
                if d.map(|d| st.now >= d).unwrap_or(false) {
                    return true;
                }
                let mut p = libc::pollfd {
                    fd: *fd,
                    events: libc::POLLIN,
                    revents: 0,
                };
                let r = unsafe { libc::poll(&mut p, 1, 0) };
                r > 0
            }
            Some(Cond::Sleep(d)) => st.now >= *d,
            Some(Cond::Join(j)) => st.th[*j].finished,
            Some(Cond::JoinAll) => st.th.iter().enumerate().all(|(i, x)| i == t || !x.harness || x.finished),
            Some(Cond::Flag(p)) => unsafe { &*(*p as *const AtomicBool) }.load(Ordering::SeqCst),
            Some(Cond::Label(name)) => st.labels.iter().any(|l| l.1 == *name),
            Some(Cond::Quiesce) => false,
        }
    }

    fn deadline_of(c: &Option<Cond>) -> Option<u64> {
        match c {
            Some(Cond::Park(d)) => *d,
            Some(Cond::Cv { deadline, notified: false, .. }) => *deadline,
            Some(Cond::Epoll(_, d)) => *d,
            Some(Cond::Sleep(d)) => Some(*d),
            _ => None,
        }
    }

    fn min_deadline(st: &State) -> Option<u64> {
        let mut m: Option<u64> = None;
        for th in st.th.iter().filter(|t| !t.finished) {
            if let Some(d) = Self::deadline_of(&th.blocked) {
                if d > st.now {
                    m = Some(m.map_or(d, |x| x.min(d)));
                }
            }
        }
        m
    }

    // the thread is about to run: hand it what it was waiting for
    fn grant(st: &mut State, t: usize) {
        let c = st.th[t].blocked.take();
        st.th[t].timed_out = false;
        match c {
            None => {}
            Some(Cond::Park(_)) => {
                if st.th[t].token {
                    st.th[t].token = false;
                } else {
                    st.th[t].timed_out = true;
                }
            }
            Some(Cond::Lock(a)) => {
                st.locks.insert(a, t);
            }
            Some(Cond::Cv { notified, .. }) => {
                st.th[t].timed_out = !notified;
            }
            _ => {}
        }
        st.th[t].yielded = false;
        if st.branching {
            st.th[t].active = true;
        }
    }

    fn fingerprint(st: &State, me: usize, en: &[usize]) -> u64 {
        let mut h = fnv(0xcbf29ce484222325, me as u64);
        for t in en {
            h = fnv(h, *t as u64 + 1);
        }
        for t in st.th.iter() {
            let k = match &t.blocked {
                None => 0u64,
                Some(Cond::Park(_)) => 1,
                Some(Cond::Lock(_)) => 2,
                Some(Cond::Cv { .. }) => 3,
                Some(Cond::Epoll(..)) => 4,
                Some(Cond::Sleep(_)) => 5,
                Some(Cond::Join(_)) => 6,
                Some(Cond::JoinAll) => 7,
                Some(Cond::Flag(_)) => 8,
                Some(Cond::Label(_)) => 10,
                Some(Cond::Quiesce) => 9,
            };
            h = fnv(h, ((t.pending as u64) << 8) | (k << 1) | t.finished as u64);
        }
        fnv(h, st.now)
    }

    /// pick who runs next, `me` is at a scheduling point
    fn choose<'a>(&'a self, mut st: MutexGuard<'a, State>, me: usize) -> (MutexGuard<'a, State>, usize) {
        loop {
            let n = st.th.len();
            let en: Vec<usize> = (0..n).filter(|&t| Self::is_enabled(&st, t)).collect();
            let horizon_abs = st.t0.saturating_add(st.cfg.vt_horizon);
            if en.is_empty() {
                match Self::min_deadline(&st) {
                    Some(d) if d <= horizon_abs => {
                        st.now = d;
                        continue;
                    }
                    other => {
                        // a quiescing thread is released when nothing else can happen
                        if let Some(q) = (0..n).find(|&t| !st.th[t].finished && matches!(st.th[t].blocked, Some(Cond::Quiesce))) {
                            st.th[q].blocked = None;
                            return (st, q);
                        }
                        match other {
                            Some(_) => self.finish_locked(
                                st,
                                ST_STALL,
                                "stall",
                                "stall: no enabled thread and the earliest deadline lies beyond the virtual-time horizon (progress would depend on idle polling)",
                            ),
                            None => self.finish_locked(st, ST_DEADLOCK, "deadlock", "deadlock: no enabled thread and no timed waiter"),
                        }
                    }
                }
            }
            // quiescence modulo busy-waiters: when every runnable thread sits in a busy-wait hint, nothing can happen
            // until somebody else acts - a quiescing harness thread is that somebody
            // (a busy-waiter counts as stuck only if nobody has written anything since it last looked)
            if en.iter().all(|&t| st.th[t].at_spin && st.th[t].spin_writes == st.writes) {
                if let Some(q) = (0..n).find(|&t| !st.th[t].finished && matches!(st.th[t].blocked, Some(Cond::Quiesce))) {
                    st.th[q].blocked = None;
                    return (st, q);
                }
            }
            // default choice
            let pref: Vec<usize> = {
                let ny: Vec<usize> = en.iter().cloned().filter(|&t| !st.th[t].yielded).collect();
                if ny.is_empty() {
                    en.clone()
                } else {
                    ny
                }
            };
            let starving = st.run_len > st.cfg.fair && en.len() > 1;
            let default = if pref.contains(&me) && !starving {
                me
            } else if st.cfg.desc {
                *pref.iter().rev().find(|&&t| t < me).unwrap_or(pref.last().unwrap())
            } else {
                *pref.iter().find(|&&t| t > me).unwrap_or(&pref[0])
            };
            let t2_dl = if st.cfg.t2 && st.branching {
                Self::min_deadline(&st).filter(|d| *d <= horizon_abs)
            } else {
                None
            };
            let any_spur = st.cfg.spurious && st.branching && (0..n).any(|t| !st.th[t].finished && !st.th[t].token && matches!(st.th[t].blocked, Some(Cond::Park(None))));
            if !st.branching || (en.len() == 1 && t2_dl.is_none() && !any_spur) {
                return (st, default);
            }
            let mut alts: Vec<usize> = vec![default];
            alts.extend(en.iter().cloned().filter(|&t| t != default));
            // threads in a plain thread park (not the timed park of the timer thread) that may wake spuriously
            let spur: Vec<usize> = if st.cfg.spurious {
                (0..n).filter(|&t| !st.th[t].finished && !st.th[t].token && matches!(st.th[t].blocked, Some(Cond::Park(None)))).collect()
            } else {
                vec![]
            };
            let nalts = alts.len() + t2_dl.is_some() as usize + spur.len();
            let i = st.nchoice;
            if i >= MAX_CHOICES {
                self.finish_locked(st, ST_TOOMANY, "too_many_choice_points", "too many choice points in one execution");
            }
            let pick = if st.dev_pos < st.devs.len() && st.devs[st.dev_pos].0 as usize == i {
                st.dev_pos += 1;
                st.devs[st.dev_pos - 1].1 as usize
            } else {
                0
            };
            let fp = Self::fingerprint(&st, me, &en);
            st.fp_roll = fnv(st.fp_roll, fp);
            unsafe {
                let s = &mut *self.shared;
                s.alts[i] = nalts.min(255) as u8;
                s.chosen[i] = pick as u8;
                s.fp[i] = st.fp_roll;
                s.n_choices = (i + 1) as u32;
            }
            st.nchoice += 1;
            if pick >= nalts {
                self.finish_locked(st, ST_NONDET, "nondeterminism", "replay divergence: recorded choice is out of range");
            }
            // determinism check: at the last dictated deviation the history must match the parent execution
            if pick != 0 && st.dev_pos == st.devs.len() && st.expect_fp != 0 && st.fp_roll != st.expect_fp {
                self.finish_locked(st, ST_NONDET, "nondeterminism", "replay divergence: fingerprint of the replayed prefix differs from the recorded one");
            }
            if t2_dl.is_some() && pick == alts.len() {
                // T2: advance the clock although threads are runnable
                st.now = t2_dl.unwrap();
                st.t2_used = true;
                continue;
            }
            if pick >= alts.len() {
                // spurious wake-up of a parked thread: it runs next, without a token
                let t = spur[pick - alts.len() - t2_dl.is_some() as usize];
                st.spurious_used = true;
                return (st, t);
            }
            return (st, alts[pick]);
        }
    }

    fn park_self(&self, parker: &Parker) {
        let mut f = match parker.flag.lock() {
            Ok(g) => g,
            Err(p) => p.into_inner(),
        };
        while !*f {
            f = match parker.cv.wait(f) {
                Ok(g) => g,
                Err(p) => p.into_inner(),
            };
        }
        *f = false;
    }

    fn wake(st: &State, t: usize) {
        let p = &st.th[t].parker;
        // (poison-tolerant like every other lock of the engine: may lets a coroutine finish an unwind on another thread
        // than the one it started on, which leaves std's per-thread panic counter wrong on both; a guard dropped on
        // such a thread while any panic is in flight poisons the mutex although nobody panicked holding it)
        *p.flag.lock().unwrap_or_else(|e| e.into_inner()) = true;
        p.cv.notify_one();
    }

    /// `me` is at a scheduling point (enabled or blocked), returns when `me` runs again
    fn resched<'a>(&'a self, mut st: MutexGuard<'a, State>, me: usize) {
        if st.cfg.tso && st.th[me].blocked.is_some() {
            // every blocking operation drains the store buffer
            Self::flush(&mut st, me);
        }
        st.steps += 1;
        if st.steps - st.steps_at_begin > st.cfg.horizon {
            self.finish_locked(st, ST_LIVELOCK, "livelock", "livelock: step horizon exceeded");
        }
        let (mut st, next) = self.choose(st, me);
        if next == me {
            st.run_len += 1;
            Self::grant(&mut st, me);
            return;
        }
        st.run_len = 0;
        Self::grant(&mut st, next);
        Self::wake(&st, next);
        let parker = st.th[me].parker.clone();
        drop(st);
        self.park_self(&parker);
    }

    /// store-buffer model: make the deferred stores of `t` visible, oldest first
    fn flush(st: &mut State, t: usize) {
        if st.th[t].sbuf.is_empty() {
            return;
        }
        let buf = std::mem::take(&mut st.th[t].sbuf);
        for e in buf {
            if crate::alloc::quarantined(e.addr) {
                // the location was freed meanwhile (the memory stays mapped): nobody can observe the store any more
                continue;
            }
            unsafe {
                match e.size {
                    1 => (*(e.addr as *const std::sync::atomic::AtomicU8)).store(e.bits as u8, Ordering::SeqCst),
                    2 => (*(e.addr as *const std::sync::atomic::AtomicU16)).store(e.bits as u16, Ordering::SeqCst),
                    4 => (*(e.addr as *const std::sync::atomic::AtomicU32)).store(e.bits as u32, Ordering::SeqCst),
                    _ => (*(e.addr as *const std::sync::atomic::AtomicU64)).store(e.bits, Ordering::SeqCst),
                }
            }
        }
    }

    /// a choice that is not a scheduling decision: `n` alternatives, 0 is the default, anything else costs a deviation
    fn extra_choice<'a>(&'a self, mut st: MutexGuard<'a, State>, me: usize, n: usize, tag: u64) -> (MutexGuard<'a, State>, usize) {
        let i = st.nchoice;
        if i >= MAX_CHOICES {
            self.finish_locked(st, ST_TOOMANY, "too_many_choice_points", "too many choice points in one execution");
        }
        let pick = if st.dev_pos < st.devs.len() && st.devs[st.dev_pos].0 as usize == i {
            st.dev_pos += 1;
            st.devs[st.dev_pos - 1].1 as usize
        } else {
            0
        };
        let fp = fnv(fnv(0x9e3779b97f4a7c15, me as u64), tag);
        st.fp_roll = fnv(st.fp_roll, fp);
        unsafe {
            let s = &mut *self.shared;
            s.alts[i] = n as u8;
            s.chosen[i] = pick as u8;
            s.fp[i] = st.fp_roll;
            s.n_choices = (i + 1) as u32;
        }
        st.nchoice += 1;
        if pick >= n {
            self.finish_locked(st, ST_NONDET, "nondeterminism", "replay divergence: recorded choice is out of range");
        }
        if pick != 0 && st.dev_pos == st.devs.len() && st.expect_fp != 0 && st.fp_roll != st.expect_fp {
            self.finish_locked(st, ST_NONDET, "nondeterminism", "replay divergence: fingerprint of the replayed prefix differs from the recorded one");
        }
        (st, pick)
    }

    fn record(&self, st: &mut State, me: usize, op: Op, addr: usize, loc: &'static Location<'static>) -> u32 {
        let site = Self::site_id(st, loc);
        st.th[me].pending = site;
        if st.log.len() < 200_000 {
            st.log.push((me as u8, site, op as u8));
        }
        if st.branching && st.accesses.len() < 200_000 {
            let write = !matches!(op, Op::Load | Op::PlainRead | Op::Fence);
            st.accesses.push(Access {
                addr,
                tid: me as u8,
                write,
                site,
            });
        }
        site
    }
}

fn op_name(op: u8) -> &'static str {
    match op {
        0 => "load",
        1 => "store",
        2 => "rmw",
        3 => "fence",
        4 => "cell_read",
        5 => "cell_write",
        6 => "plain_read",
        7 => "plain_write",
        _ => "?",
    }
}

impl Hooks for Engine {
    fn point(&self, op: Op, addr: usize, loc: &'static Location<'static>) {
        let me = me();
        if me == usize::MAX {
            return;
        }
        let mut st = self.lock();
        st.th[me].at_spin = false;
        if !matches!(op, Op::Load | Op::CellRead | Op::PlainRead) {
            st.writes += 1;
        }
        self.record(&mut st, me, op, addr, loc);
        let mut flush_after = false;
        if st.cfg.tso && !st.th[me].sbuf.is_empty() {
            // read-modify-writes (locked instructions), fences and plain writes do not overtake held stores;
            // stores are handled in defer_store (FIFO), loads may overtake
            let drain = !matches!(op, Op::Load | Op::Store | Op::CellRead | Op::PlainRead);
            for e in st.th[me].sbuf.iter_mut() {
                e.age += 1;
            }
            // the held stores become visible when this thread really proceeds (after the scheduling decision below):
            // until then the others still see the old values
            flush_after = drain || st.th[me].sbuf.iter().any(|e| e.age > SB_MAX_AGE);
        }
        if st.branching && crate::alloc::quarantined(addr) {
            // the operation that is about to execute touches memory that has been freed
            let f = loc.file();
            // crate relative, so that the clause does not depend on where the checkout lives
            let rel = match f.rfind("/may_queue/src/") {
                Some(i) => &f[i + 1..],
                None => f.rfind("/src/").map(|i| &f[i + 1..]).unwrap_or(f),
            };
            let clause = format!("use_after_free@{}", rel);
            let msg = format!("use after free: {:?} at {}:{} is about to access {:#x}, which lies in a freed (quarantined) block", op, rel, loc.line(), addr);
            self.finish_locked(st, ST_FAIL, &clause, &msg);
        }
        if st.cfg.coarse && st.th[me].bracket > 0 {
            if flush_after {
                Self::flush(&mut st, me);
            }
            return;
        }
        let branching = st.branching;
        self.resched(st, me);
        if flush_after {
            let mut st = self.lock();
            Self::flush(&mut st, me);
        }
        // the operation executes now: others may have run since the first look
        if branching && crate::alloc::quarantined(addr) {
            let st = self.lock();
            let f = loc.file();
            let rel = match f.rfind("/may_queue/src/") {
                Some(i) => &f[i + 1..],
                None => f.rfind("/src/").map(|i| &f[i + 1..]).unwrap_or(f),
            };
            let clause = format!("use_after_free@{}", rel);
            let msg = format!("use after free: {:?} at {}:{} accesses {:#x}, which was freed while this thread was suspended right in front of the operation", op, rel, loc.line(), addr);
            self.finish_locked(st, ST_FAIL, &clause, &msg);
        }
    }

    fn cell(&self, op: Op, addr: usize, loc: &'static Location<'static>) {
        // payload cells are plain memory: in fine mode their accesses are scheduling points too, so that a
        // value observable before it is published / after it is taken shows up as a wrong or poisoned value
        self.point(op, addr, loc);
    }

    fn post(&self, _addr: usize, loc: &'static Location<'static>) {
        let me = me();
        if me == usize::MAX {
            return;
        }
        let mut st = self.lock();
        if !st.cfg.post_points || (st.cfg.coarse && st.th[me].bracket > 0) {
            return;
        }
        let site = Self::site_id(&mut st, loc);
        st.th[me].pending = site;
        self.resched(st, me);
    }

    fn now_ns(&self) -> u64 {
        self.lock().now
    }

    fn defer_store(&self, addr: usize, size: u8, bits: u64) -> bool {
        let me = me();
        if me == usize::MAX {
            return false;
        }
        let mut st = self.lock();
        if !st.cfg.tso {
            return false;
        }
        let site = Self::site_str(&st, st.th[me].pending);
        let file = site.rsplit_once(':').map(|x| x.0).unwrap_or(&site);
        if !st.branching || st.th[me].sbuf.len() >= SB_CAP || !st.cfg.tso_files.iter().any(|f| file.ends_with(f)) {
            Self::flush(&mut st, me);
            return false;
        }
        let (mut st, pick) = self.extra_choice(st, me, 2, 0x7350);
        if pick == 1 {
            st.th[me].sbuf.push(SbEntry { addr, size, bits, age: 0 });
            st.tso_used = true;
            true
        } else {
            // stores leave the buffer in order
            Self::flush(&mut st, me);
            false
        }
    }

    fn forward_load(&self, addr: usize) -> Option<u64> {
        let me = me();
        if me == usize::MAX {
            return None;
        }
        let st = self.lock();
        st.th[me].sbuf.iter().rev().find(|e| e.addr == addr).map(|e| e.bits)
    }

    fn fence(&self) {
        let me = me();
        if me == usize::MAX {
            return;
        }
        let mut st = self.lock();
        Self::flush(&mut st, me);
    }

    fn thread_create(&self) -> usize {
        let mut st = self.lock();
        let n = st.th.len();
        st.th.push(Th {
            name: format!("rt{}", n),
            parker: Parker::new(),
            blocked: None,
            finished: false,
            harness: false,
            token: false,
            yielded: false,
            at_spin: false,
            spin_writes: 0,
            timed_out: false,
            std_id: None,
            bracket: 0,
            pending: 0,
            active: false,
            sbuf: Vec::new(),
        });
        n
    }

    fn thread_start(&self, token: usize) {
        TID.with(|t| t.set(token));
        let parker = {
            let mut st = self.lock();
            st.th[token].std_id = Some(std::thread::current().id());
            st.th[token].parker.clone()
        };
        self.park_self(&parker);
    }

    fn thread_exit(&self, panicked: bool) {
        let me = me();
        let mut st = self.lock();
        if panicked {
            let name = st.th[me].name.clone();
            let last = st.panics.last().cloned().unwrap_or_default();
            self.finish_locked(st, ST_PANIC, "unexpected_panic", &format!("thread {} panicked: {}", name, last));
        }
        st.th[me].finished = true;
        Self::flush(&mut st, me);
        st.steps += 1;
        let (mut st, next) = self.choose(st, me);
        st.run_len = 0;
        Self::grant(&mut st, next);
        Self::wake(&st, next);
    }

    fn pre_park(&self, timeout_ns: Option<u64>) {
        let me = me();
        if me == usize::MAX {
            return;
        }
        let mut st = self.lock();
        let d = timeout_ns.map(|t| st.now.saturating_add(t));
        st.th[me].blocked = Some(Cond::Park(d));
        self.resched(st, me);
        // make the real park that follows return at once
        std::thread::current().unpark();
    }

    fn pre_unpark(&self, id: ThreadId) {
        let me = me();
        if me == usize::MAX {
            return;
        }
        let mut st = self.lock();
        Self::flush(&mut st, me);
        self.resched(st, me);
        let mut st = self.lock();
        if let Some(t) = st.th.iter().position(|t| t.std_id == Some(id)) {
            st.th[t].token = true;
        }
    }

    fn sleep(&self, ns: u64) {
        let me = me();
        if me == usize::MAX {
            return std::thread::sleep(std::time::Duration::from_nanos(ns));
        }
        let mut st = self.lock();
        let d = st.now.saturating_add(ns);
        st.th[me].blocked = Some(Cond::Sleep(d));
        self.resched(st, me);
    }

    fn pre_epoll(&self, epfd: i32, timeout_ms: i64) {
        let me = me();
        if me == usize::MAX {
            return;
        }
        let mut st = self.lock();
        let d = if timeout_ms < 0 {
            None
        } else {
            Some(st.now.saturating_add(timeout_ms as u64 * 1_000_000))
        };
        st.th[me].blocked = Some(Cond::Epoll(epfd, d));
        self.resched(st, me);
    }

    fn lock(&self, addr: usize) {
        let me = me();
        if me == usize::MAX {
            return;
        }
        let mut st = Engine::lock(self);
        st.th[me].blocked = Some(Cond::Lock(addr));
        if st.branching && st.accesses.len() < 200_000 {
            st.accesses.push(Access { addr, tid: me as u8, write: true, site: 0x10c0 });
        }
        self.resched(st, me);
    }

    fn unlock(&self, addr: usize) {
        let me = me();
        if me == usize::MAX {
            return;
        }
        let mut st = Engine::lock(self);
        Self::flush(&mut st, me);
        st.locks.remove(&addr);
    }

    fn cv_wait(&self, cv: usize, lock: usize, timeout_ns: Option<u64>) -> bool {
        let me = me();
        if me == usize::MAX {
            return false;
        }
        let mut st = Engine::lock(self);
        st.locks.remove(&lock);
        let d = timeout_ns.map(|t| st.now.saturating_add(t));
        st.cvseq += 1;
        let seq = st.cvseq;
        st.th[me].blocked = Some(Cond::Cv {
            cv,
            deadline: d,
            notified: false,
            seq,
        });
        if st.branching && st.accesses.len() < 200_000 {
            st.accesses.push(Access { addr: cv, tid: me as u8, write: true, site: 0x10c2 });
        }
        self.resched(st, me);
        let to = Engine::lock(self).th[me].timed_out;
        // re-acquire the mutex
        let mut st = Engine::lock(self);
        st.th[me].blocked = Some(Cond::Lock(lock));
        self.resched(st, me);
        to
    }

    fn cv_notify(&self, cv: usize, all: bool) {
        let me = me();
        if me == usize::MAX {
            return;
        }
        let mut st = Engine::lock(self);
        if st.branching && st.accesses.len() < 200_000 {
            st.accesses.push(Access { addr: cv, tid: me as u8, write: true, site: 0x10c1 });
        }
        self.resched(st, me);
        let mut st = Engine::lock(self);
        let mut ws: Vec<(u64, usize)> = vec![];
        for (i, t) in st.th.iter().enumerate() {
            if let Some(Cond::Cv {
                cv: c,
                notified: false,
                seq,
                ..
            }) = &t.blocked
            {
                if *c == cv {
                    ws.push((*seq, i));
                }
            }
        }
        ws.sort();
        for (_, i) in ws.into_iter().take(if all { usize::MAX } else { 1 }) {
            if let Some(Cond::Cv { notified, .. }) = &mut st.th[i].blocked {
                *notified = true;
            }
        }
    }

    fn spin(&self) {
        let me = me();
        if me == usize::MAX {
            return;
        }
        let mut st = Engine::lock(self);
        st.th[me].yielded = true;
        st.th[me].at_spin = true;
        st.th[me].spin_writes = st.writes;
        self.resched(st, me);
    }

    fn yield_hint(&self) {
        let me = me();
        if me == usize::MAX {
            return;
        }
        let mut st = Engine::lock(self);
        st.th[me].yielded = true;
        self.resched(st, me);
    }

    fn bracket(&self, enter: bool) {
        let me = me();
        if me == usize::MAX {
            return;
        }
        let mut st = Engine::lock(self);
        if enter {
            st.th[me].bracket += 1;
            if st.cfg.coarse && st.th[me].bracket == 1 {
                // one scheduling point for the whole operation
                self.resched(st, me);
            }
        } else {
            st.th[me].bracket -= 1;
        }
    }

    fn label(&self, s: &'static str, arg: usize) {
        let me = me();
        if me == usize::MAX {
            return;
        }
        let mut st = Engine::lock(self);
        if st.labels.len() < 4096 {
            st.labels.push((me, s, arg));
        }
        if let Some(i) = st.breakpoints.iter().position(|b| b.0 == s) {
            let (_, flag, hit) = st.breakpoints.remove(i);
            unsafe { &*(hit as *const AtomicBool) }.store(true, Ordering::SeqCst);
            st.th[me].blocked = Some(Cond::Flag(flag));
            self.resched(st, me);
            st = Engine::lock(self);
        }
        // lifetime witness for objects that live on a stack (the quarantine allocator cannot see them): the code reports
        // "<x>.created" / "<x>.dropped" with the object's address and marks later uses of the object with "<x>.<...>use_after..."
        if st.branching {
            if let Some(kind) = s.strip_suffix(".dropped") {
                st.dead_objs.push((kind, arg));
                let size = st.obj_size.iter().rev().find(|o| o.0 == arg).map(|o| o.1).unwrap_or(1);
                crate::alloc::mark_dead(arg, size);
            } else if let Some(kind) = s.strip_suffix(".created") {
                st.dead_objs.retain(|d| !(d.0 == kind && d.1 == arg));
                st.obj_size.push((arg, 1));
                crate::alloc::unmark_dead(arg);
            } else if s.ends_with(".size") {
                // belongs to the ".created" label right in front of it
                if let Some(o) = st.obj_size.last_mut() {
                    o.1 = arg;
                }
            } else if s.contains(".use_after_") {
                // the use that follows is a scheduling point of its own, but by then it is too late to look:
                // let the others run here, then check
                self.resched(st, me);
                st = Engine::lock(self);
                let kind = s.split('.').next().unwrap_or("");
                if st.dead_objs.iter().any(|d| d.0 == kind && d.1 == arg) {
                    let clause = format!("use_after_free@{}", kind);
                    let msg = format!("use after free: at label {} the {} at {:#x} is used although it has been dropped", s, kind, arg);
                    self.finish_locked(st, ST_FAIL, &clause, &msg);
                }
            }
        }
        unsafe {
            let sh = &mut *self.shared;
            let txt = if arg != 0 { format!("{}@t{}({:x}) ", s, me, arg) } else { format!("{}@t{} ", s, me) };
            let b = txt.as_bytes();
            let n = sh.ring_len as usize;
            if n + b.len() <= RING_CAP {
                sh.ring[n..n + b.len()].copy_from_slice(b);
                sh.ring_len = (n + b.len()) as u32;
            }
        }
    }

    fn co_resume(&self, enter: bool, co: usize) {
        let me = me();
        if me == usize::MAX {
            return;
        }
        let mut st = Engine::lock(self);
        if enter {
            if let Some(other) = st.resident.get(&co).cloned() {
                let m = format!(
                    "coroutine {:#x} is resumed on t{} while it is still resident on t{}",
                    co, me, other
                );
                self.finish_locked(st, ST_RESIDENCY, "residency", &m);
            }
            st.resident.insert(co, me);
        } else {
            st.resident.remove(&co);
        }
    }
}
