//! helpers shared by the scenario families
use crate::engine::Engine;
use std::sync::atomic::{AtomicU32, AtomicUsize, Ordering};

/// start the real runtime with `workers` workers; runs with branching disabled (warm-up, DESIGN §3.5)
pub fn rt_init(workers: usize) {
    rt_init_opts(workers, 2, 0x4000, 3_600_000_000_000);
}

pub fn rt_init_opts(workers: usize, pool: usize, stack: usize, poll_ns: u64) {
    may::config().set_workers(workers).set_pool_capacity(pool).set_stack_size(stack).set_worker_pin(false);
    may::config().set_timeout_ns(poll_ns);
    // warm up: starts the scheduler, its workers and the timer thread
    let h = go!(|| 1);
    h.join().unwrap();
}

/// like rt_init, then `k` more trivial coroutines are spawned and joined one by one: moves the positions of the
/// global (mpsc, 64 slots per block) and local (spmc, 32 slots) run queues towards a block boundary
pub fn rt_init_offset(workers: usize, k: usize) {
    rt_init(workers);
    for _ in 0..k {
        let h = go!(|| 1);
        h.join().unwrap();
    }
}

pub const MAX_TRACKED: usize = 256;
#[allow(clippy::declare_interior_mutable_const)]
const Z: AtomicU32 = AtomicU32::new(0);
pub static CREATED: [AtomicU32; MAX_TRACKED] = [Z; MAX_TRACKED];
pub static DROPPED: [AtomicU32; MAX_TRACKED] = [Z; MAX_TRACKED];
pub static LIVE: AtomicUsize = AtomicUsize::new(0);

/// payload whose drops are counted per id (std atomics: invisible to the engine)
#[derive(Debug)]
pub struct Tracked(pub u32);

impl Tracked {
    pub fn new(id: u32) -> Tracked {
        CREATED[id as usize].fetch_add(1, Ordering::SeqCst);
        LIVE.fetch_add(1, Ordering::SeqCst);
        Tracked(id)
    }
    pub fn id(&self) -> u32 {
        self.0
    }
}

impl Drop for Tracked {
    fn drop(&mut self) {
        DROPPED[self.0 as usize].fetch_add(1, Ordering::SeqCst);
        LIVE.fetch_sub(1, Ordering::SeqCst);
    }
}

pub fn drops(id: u32) -> u32 {
    DROPPED[id as usize].load(Ordering::SeqCst)
}

/// every id in `ids` dropped exactly once, else fail with the clause `drop_exactly_once`
pub fn check_drops(e: &Engine, ids: impl Iterator<Item = u32>) {
    for id in ids {
        let c = CREATED[id as usize].load(Ordering::SeqCst);
        let d = drops(id);
        if c != d {
            e.fail("drop_exactly_once", &format!("payload {} created {} times but dropped {} times", id, c, d));
        }
    }
}

pub fn fmt_list<T: std::fmt::Debug>(v: &[T]) -> String {
    format!("{:?}", v).replace(' ', "")
}

/// a participant of a scenario: a harness thread or a coroutine
pub enum Part {
    T(usize),
    C(may::coroutine::JoinHandle<()>),
}

pub fn spawn_part<F: FnOnce() + Send + 'static>(e: &'static Engine, kind: char, f: F) -> Part {
    match kind {
        'T' => Part::T(e.spawn("thread", f)),
        'C' => Part::C(go!(f)),
        _ => unreachable!(),
    }
}

/// Ok / Err(true) = ended by the Cancel panic / Err(false) = another panic
pub fn join_part(e: &'static Engine, p: Part) -> Result<(), bool> {
    match p {
        Part::T(t) => {
            e.join(t);
            Ok(())
        }
        Part::C(h) => match h.join() {
            Ok(()) => Ok(()),
            Err(p) => Err(p.downcast_ref::<generator::Error>().is_some()),
        },
    }
}

pub fn cancel_part(p: &Part) {
    if let Part::C(h) = p {
        unsafe { h.coroutine().cancel() };
    }
}

pub fn parts_name(parts: &[(char, &str)]) -> String {
    parts.iter().map(|(k, o)| format!("{}{}", k, o)).collect::<Vec<_>>().join("_")
}

pub fn needs_rt(parts: &[(char, &str)]) -> bool {
    parts.iter().any(|(k, _)| *k == 'C')
}
