#![allow(dead_code)]
//! mayverif: model checking harness for may (see /verif/DESIGN.md)
#[macro_use]
extern crate may;

mod alloc;
mod engine;
mod explore;
mod hist;
mod props;
mod report;
mod util;

use explore::*;
use serde_json::{json, Value};
use std::time::Instant;

#[global_allocator]
static GA: alloc::DetAlloc = alloc::DetAlloc;

fn arg_val(args: &[String], key: &str) -> Option<String> {
    args.iter().position(|a| a == key).and_then(|i| args.get(i + 1).cloned())
}

fn glob(pat: &str, s: &str) -> bool {
    // '*' wildcard only
    let parts: Vec<&str> = pat.split('*').collect();
    if parts.len() == 1 {
        return pat == s;
    }
    let mut pos = 0usize;
    for (i, p) in parts.iter().enumerate() {
        if p.is_empty() {
            continue;
        }
        if i == 0 {
            if !s.starts_with(p) {
                return false;
            }
            pos = p.len();
        } else if i == parts.len() - 1 {
            return s.len() >= pos + p.len() && s[pos..].ends_with(p);
        } else {
            match s[pos..].find(p) {
                Some(k) => pos += k + p.len(),
                None => return false,
            }
        }
    }
    true
}

fn main() {
    let args: Vec<String> = std::env::args().collect();
    if args.len() < 2 {
        eprintln!("usage: mayverif check <PROP> [--tier quick|thorough] [--only <glob>] [--jobs N] | replay <file> | list <PROP> [--tier t] | run <PROP> <scenario> [--bound d]");
        std::process::exit(2);
    }
    let tier = arg_val(&args, "--tier").or_else(|| std::env::var("VERIF_TIER").ok()).unwrap_or_else(|| "quick".to_string());
    let tier = if tier == "thorough" { "thorough" } else { "quick" };
    let seed: u64 = std::env::var("VERIF_SEED").ok().and_then(|s| s.parse().ok()).unwrap_or(0);
    match args[1].as_str() {
        "list" => {
            let prop = args[2].as_str();
            for s in props::build(prop, tier) {
                println!("{:<60} bound={} {} {}{}", s.name, s.bound, if s.cfg.coarse { "coarse" } else { "fine" }, alloc::mode_name(s.alloc), if s.cfg.t2 { " t2" } else { "" });
            }
        }
        "check" => {
            let prop = args[2].clone();
            let only = arg_val(&args, "--only");
            let jobs: usize = arg_val(&args, "--jobs").and_then(|s| s.parse().ok()).unwrap_or(0);
            let code = check(&prop, tier, seed, only.as_deref(), jobs);
            std::process::exit(code);
        }
        "replay" => {
            let code = report::replay(&args[2]);
            std::process::exit(code);
        }
        "run" => {
            // debugging aid: explore one scenario and print what happened
            let prop = args[2].as_str();
            let pat = args[3].as_str();
            let bound: Option<usize> = arg_val(&args, "--bound").and_then(|s| s.parse().ok());
            let par: usize = arg_val(&args, "--par").and_then(|s| s.parse().ok()).unwrap_or(16);
            for mut s in props::build(prop, tier).into_iter().filter(|s| glob(pat, &s.name)) {
                if let Some(b) = bound {
                    s.bound = b;
                }
                let r = explore(&s, &Opts { par, seed, shard: (0, 1), rechecks: 4 });
                println!(
                    "{}: executions={} per_level={:?} bound_completed={} n0={} max_n={} max_steps={} states={} outcomes={} sigs={} both_orders={} active={} statuses={:?} wall={:.2}s capped={:?}",
                    r.name, r.executions, r.per_level, r.bound_completed, r.n0, r.max_n, r.max_steps, r.states, r.outcomes.len(), r.sigs.len(), r.both_orders(), r.threads_active_max, r.statuses, r.wall, r.capped
                );
                for (o, n) in r.outcomes.iter().take(12) {
                    println!("   outcome x{}: {}", n, o);
                }
                for m in r.machinery.iter().take(5) {
                    println!("   MACHINERY: {}", m);
                }
                for v in r.violations.iter().take(3) {
                    println!("   VIOLATION clause={} devs={:?}\n{}", v.clause, v.devs, v.msg);
                }
            }
        }
        _ => {
            eprintln!("unknown command");
            std::process::exit(2);
        }
    }
}

/// explore all scenarios of a property, write the evidence file, print verdict lines
fn check(prop: &str, tier: &str, seed: u64, only: Option<&str>, jobs: usize) -> i32 {
    let t0 = Instant::now();
    let mut scs = props::build(prop, tier);
    if let Some(p) = only {
        scs.retain(|s| glob(p, &s.name));
    }
    if scs.is_empty() {
        eprintln!("no scenarios for {} {}", prop, tier);
        return 2;
    }
    // work items: (scenario, shard); big ones first for load balance
    let mut items: Vec<(usize, usize)> = vec![];
    for (i, s) in scs.iter().enumerate() {
        for k in 0..s.shards {
            items.push((i, k));
        }
    }
    items.sort_by_key(|(i, _)| std::cmp::Reverse((scs[*i].shards, scs[*i].bound)));
    let ncpu = 16usize;
    let workers = if jobs > 0 { jobs } else { items.len().min(ncpu) };
    let par = (2 * ncpu / workers).clamp(1, 8);
    let dir = format!("{}/results-{}-{}-{}", std::env::var("MAYVERIF_TMP").unwrap_or_else(|_| "/verif/target-hooks".to_string()), prop, tier, std::process::id());
    std::fs::create_dir_all(&dir).unwrap();
    // socket files of the network scenarios live (and die) with the result directory
    std::env::set_var("MAYVERIF_SOCKDIR", &dir);
    // shared work counter
    let counter = unsafe {
        let p = libc::mmap(std::ptr::null_mut(), 4096, libc::PROT_READ | libc::PROT_WRITE, libc::MAP_SHARED | libc::MAP_ANONYMOUS, -1, 0);
        assert!(p != libc::MAP_FAILED);
        &*(p as *const std::sync::atomic::AtomicUsize)
    };
    let mut pids = vec![];
    for _w in 0..workers {
        let pid = unsafe { libc::fork() };
        assert!(pid >= 0);
        if pid == 0 {
            loop {
                let j = counter.fetch_add(1, std::sync::atomic::Ordering::SeqCst);
                if j >= items.len() {
                    unsafe { libc::_exit(0) };
                }
                let (i, k) = items[j];
                let sc = &scs[i];
                let r = explore(sc, &Opts { par, seed, shard: (k, sc.shards), rechecks: if k == 0 { 2 } else { 0 } });
                let path = format!("{}/{}-{}.json", dir, i, k);
                std::fs::write(&path, serde_json::to_vec(&r.to_json()).unwrap()).unwrap();
            }
        }
        pids.push(pid);
    }
    let mut machinery: Vec<String> = vec![];
    for pid in pids {
        let mut st = 0;
        unsafe { libc::waitpid(pid, &mut st, 0) };
        if !(libc::WIFEXITED(st) && libc::WEXITSTATUS(st) == 0) {
            machinery.push(format!("explorer worker {} died (wait status {})", pid, st));
        }
    }
    // aggregate
    let mut results: Vec<ScenarioResult> = vec![];
    for (i, s) in scs.iter().enumerate() {
        let mut agg: Option<ScenarioResult> = None;
        for k in 0..s.shards {
            let path = format!("{}/{}-{}.json", dir, i, k);
            match std::fs::read(&path).ok().and_then(|b| serde_json::from_slice::<Value>(&b).ok()) {
                Some(v) => {
                    let r = ScenarioResult::from_json(&v);
                    match agg.as_mut() {
                        None => agg = Some(r),
                        Some(a) => a.merge(r),
                    }
                }
                None => machinery.push(format!("no result for scenario {} shard {}", s.name, k)),
            }
        }
        if let Some(a) = agg {
            results.push(a);
        }
    }
    let _ = std::fs::remove_dir_all(&dir);
    report::finish(prop, tier, seed, &scs, results, machinery, t0.elapsed().as_secs_f64())
}

#[allow(dead_code)]
fn unused(_: Value) -> Value {
    json!(null)
}
